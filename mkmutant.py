#!/usr/bin/env python3
"""mkmutant.py <name> <file> <old> <new>  — create mutants/<name>.patch by replacing one occurrence in /repo/<file>."""
import subprocess, sys
name, path, old, new = sys.argv[1:5]
count = int(sys.argv[5]) if len(sys.argv) > 5 else 1
p = '/repo/' + path
s = open(p).read()
if s.count(old) < 1:
    print("NOT FOUND:", old); sys.exit(1)
if s.count(old) != count:
    print(f"occurrences: {s.count(old)} (expected {count})"); sys.exit(1)
open(p, 'w').write(s.replace(old, new))
d = subprocess.run(['git', '-C', '/repo', 'diff'], capture_output=True, text=True).stdout
open(f'/verif/mutants/{name}.patch', 'w').write(d)
subprocess.check_call(['git', '-C', '/repo', 'checkout', '--', '.'])
print("wrote", name)
