#!/bin/bash
# ./verify_seed.sh <id> <demo-test-name>   confirm a seeded change in its scratch worktree /tmp/seed/<id>:
#   builds, existing tests pass with it, the demonstration fails with it and passes without it.
set -u
ID=$1; DEMO=$2; W=/tmp/seed/$ID
export CARGO_NET_OFFLINE=true
cd $W || exit 2
# the pre-populated target dir was a hardlink copy: drop every workspace artifact so that nothing is stale
(cd target/debug 2>/dev/null && rm -rf incremental .cargo-lock .fingerprint/brc20-prog-* .fingerprint/test-utils-* brc20-prog brc20-prog.d deps/*brc20_prog* deps/*test_utils* deps/deploy_call-* deps/transact-* deps/precompiles-* deps/server_client-* deps/${DEMO}-* 2>/dev/null)
echo "== with the change: existing tests"
cargo test --offline --lib 2>&1 | grep -E "^test result|panicked|FAILED" | head -5
cargo test --offline --test deploy_call --test transact --test server_client 2>&1 | grep -E "^test result|FAILED" | head -6
echo "== with the change: demonstration (must fail)"
cargo test --offline --test $DEMO 2>&1 | grep -E "^test result|panicked at|assertion" | head -6
echo "== without the change: demonstration (must pass)"
git stash push -q -- src
cargo test --offline --test $DEMO 2>&1 | grep -E "^test result|panicked at" | head -4
git stash pop -q
git status --short | head -5
