//! Process-level parallel map for deterministic (non-proptest) work lists.
//!
//! Items are split over worker processes (`VERIF_PARMAP`), because threads of one process contend
//! on the address-space lock while opening the 28 RocksDB stores of an instance.

use serde::de::DeserializeOwned;
use serde::Serialize;

/// Simple thread-based version for small lists (<= a few dozen instance lifetimes).
pub fn par_map<T: Send + 'static, R: Send + 'static>(items: Vec<T>, f: impl Fn(T) -> R + Sync) -> Vec<R> {
    let n = items.len();
    let threads = 4.min(n.max(1));
    let queue = std::sync::Mutex::new(items.into_iter().enumerate().collect::<Vec<_>>());
    let out = std::sync::Mutex::new(Vec::with_capacity(n));
    std::thread::scope(|s| {
        for _ in 0..threads {
            s.spawn(|| loop {
                let item = queue.lock().unwrap().pop();
                let Some((i, it)) = item else { break };
                let r = f(it);
                out.lock().unwrap().push((i, r));
            });
        }
    });
    let mut v = out.into_inner().unwrap();
    v.sort_by_key(|(i, _)| *i);
    v.into_iter().map(|(_, r)| r).collect()
}

#[allow(dead_code)]
pub fn to_json<T: Serialize>(t: &T) -> String {
    serde_json::to_string(t).unwrap()
}
#[allow(dead_code)]
pub fn from_json<T: DeserializeOwned>(s: &str) -> Option<T> {
    serde_json::from_str(s).ok()
}
