//! Well-typed parameters for every registered RPC method (shared by C09, C11, C12).
use alloy::primitives::{keccak256, TxKind};
use serde_json::{json, Value};

use crate::driver::Instance;
use crate::ops::*;

/// What requests can refer to. Built by `Fixture::new` on a small populated chain.
#[derive(Clone, Debug)]
pub struct ReqCtx {
    pub contract: String,
    pub contract_insc: String,
    pub tx_hash: String,
    pub block_hash: String,
    pub pkscript: String,
    pub height: u64,
    /// parameters of the block under construction (hash, timestamp, number of txs in it)
    pub open_hash: String,
    pub open_ts: u64,
    pub open_count: u64,
    pub seq: u64,
    /// account nonce of signer #0 (who has the next nonce parked in the fixture's pool)
    pub signer_nonce: u64,
}

pub const RUNTIME_STORE: &str = "0x600a600c600039600a6000f3600160005401600055"; // increments slot 0 on every call

pub fn executing_read(method: &str) -> bool {
    matches!(method, "eth_call" | "eth_callMany" | "eth_estimateGas" | "eth_estimateGasMany" | "brc20_balance")
}

/// named-parameter object (or positional array) of a well-typed, state-conformant request
pub fn well_typed(method: &str, c: &ReqCtx) -> Value {
    let insc = format!("{}i{}", hex::encode(keccak256(format!("rpcgen{}", c.seq))), c.seq % 7);
    let txid = b256_hex(keccak256(format!("rpcgentx{}", c.seq)));
    let blockf = |mut p: serde_json::Map<String, Value>| {
        p.insert("timestamp".into(), json!(c.open_ts));
        p.insert("hash".into(), json!(c.open_hash));
        p.insert("tx_idx".into(), json!(c.open_count));
        p.insert("inscription_id".into(), json!(insc));
        Value::Object(p)
    };
    let payload = |mut p: serde_json::Map<String, Value>| {
        p.insert("inscription_byte_len".into(), json!(2500));
        p.insert("op_return_tx_id".into(), json!(txid));
        p
    };
    let call_obj = json!({"from": addr_hex(pk_addr(0)), "to": c.contract, "data": "0x00"});
    match method {
        "brc20_mine" => json!({"block_count": 2, "timestamp": 7}),
        "brc20_deploy" => {
            let mut p = serde_json::Map::new();
            p.insert("from_pkscript".into(), json!(c.pkscript));
            p.insert("data".into(), json!(RUNTIME_STORE));
            blockf(payload(p))
        }
        "brc20_call" => {
            let mut p = serde_json::Map::new();
            p.insert("from_pkscript".into(), json!(c.pkscript));
            p.insert("contract_address".into(), json!(c.contract));
            p.insert("data".into(), json!("0x00"));
            blockf(payload(p))
        }
        "brc20_transact" => {
            // signer #0 at its account nonce: executes and drains the successor parked by the fixture
            let raw = sign_legacy(0, Some(crate::driver::chain_id()), c.signer_nonce, TxKind::Create, hex::decode(&RUNTIME_STORE[2..]).unwrap());
            let mut p = serde_json::Map::new();
            p.insert("raw_tx_data".into(), json!(format!("0x{}", hex::encode(raw))));
            blockf(payload(p))
        }
        "brc20_deposit" | "brc20_withdraw" => {
            let mut p = serde_json::Map::new();
            p.insert(if method == "brc20_deposit" { "to_pkscript" } else { "from_pkscript" }.into(), json!(c.pkscript));
            p.insert("ticker".into(), json!("ordi"));
            p.insert("amount".into(), json!("0x3"));
            blockf(p)
        }
        "brc20_balance" => json!([c.pkscript, "ordi"]),
        "brc20_initialise" => json!({"genesis_hash": b256_hex(keccak256(b"rpcgen-genesis")), "genesis_timestamp": 1, "genesis_height": 0}),
        "brc20_getTxReceiptByInscriptionId" => json!([c.contract_insc]),
        "brc20_getInscriptionIdByTxHash" => json!([c.tx_hash]),
        "brc20_getInscriptionIdByContractAddress" => json!([c.contract]),
        "brc20_finaliseBlock" => json!({"timestamp": c.open_ts, "hash": c.open_hash, "block_tx_count": c.open_count}),
        "brc20_reorg" => json!([c.height.saturating_sub(1)]),
        "brc20_commitToDatabase" | "brc20_clearCaches" | "brc20_version" | "eth_blockNumber" | "eth_chainId" | "eth_maxPriorityFeePerGas" | "eth_blobBaseFee"
        | "net_version" | "web3_clientVersion" | "eth_accounts" | "eth_gasPrice" | "eth_syncing" | "txpool_content" => json!([]),
        "eth_getBlockByNumber" => json!([c.height.to_string(), true]),
        "eth_getBlockByHash" => json!([c.block_hash, true]),
        "eth_getTransactionCount" => json!([addr_hex(pk_addr(0)), "latest"]),
        "eth_getBlockTransactionCountByNumber" => json!(["latest"]),
        "eth_getBlockTransactionCountByHash" => json!([c.block_hash]),
        "eth_getLogs" => json!([{"fromBlock": c.height.saturating_sub(3).to_string(), "toBlock": c.height.to_string()}]),
        "eth_call" | "eth_estimateGas" => json!([call_obj]),
        "eth_callMany" | "eth_estimateGasMany" => json!([[call_obj.clone(), call_obj]]),
        "eth_getStorageAt" => json!([c.contract, "0x0"]),
        "eth_getCode" => json!([c.contract]),
        "eth_getTransactionReceipt" | "debug_traceTransaction" | "eth_getTransactionByHash" => json!([c.tx_hash]),
        "debug_getBlockTraceString" | "debug_getBlockTraceHash" | "debug_getRawHeader" | "debug_getRawBlock" | "debug_getRawReceipts" => json!([c.height.to_string()]),
        "eth_getTransactionByBlockNumberAndIndex" => json!([c.height, 0]),
        "eth_getTransactionByBlockHashAndIndex" => json!([c.block_hash, 0]),
        "eth_getBalance" => json!([addr_hex(pk_addr(0)), "latest"]),
        "eth_getUncleCountByBlockNumber" => json!([c.height]),
        "eth_getUncleCountByBlockHash" => json!([c.block_hash]),
        "eth_getUncleByBlockNumberAndIndex" => json!([c.height, 0]),
        "eth_getUncleByBlockHashAndIndex" => json!([c.block_hash, 0]),
        "web3_sha3" => json!(["0x68656c6c6f"]),
        "txpool_contentFrom" => json!([addr_hex(signer_addr(0))]),
        _ => json!([]),
    }
}

/// A small populated chain: controller, one contract with storage, a deposit, a parked signed tx,
/// 4 blocks, committed. `ctx()` describes it.
pub struct Fixture {
    pub inst: Instance,
    pub ctx: ReqCtx,
}

impl Fixture {
    pub fn new(tag: &str) -> Fixture {
        let mut inst = Instance::fresh(tag);
        inst.call("brc20_initialise", json!({"genesis_hash": b256_hex(keccak256(b"rpcgen-genesis")), "genesis_timestamp": 1, "genesis_height": 0}));
        let h1 = b256_hex(keccak256(b"rpcgen-b1"));
        let insc = "fixturecontracti0".to_string();
        let r = inst.call(
            "brc20_deploy",
            json!({"from_pkscript": PKSCRIPTS[0], "data": RUNTIME_STORE, "timestamp": 2, "hash": h1, "tx_idx": 0, "inscription_id": insc, "inscription_byte_len": 2500, "op_return_tx_id": h1}),
        );
        let contract = r.ok().and_then(|v| v["contractAddress"].as_str().map(String::from)).unwrap_or_else(|| addr_hex(crate::evm::eoa(0)));
        let tx_hash = r.ok().and_then(|v| v["transactionHash"].as_str().map(String::from)).unwrap_or_else(|| h1.clone());
        inst.call("brc20_deposit", json!({"to_pkscript": PKSCRIPTS[0], "ticker": "ordi", "amount": "0x64", "timestamp": 2, "hash": h1, "tx_idx": 1, "inscription_id": "fixturedepositi0"}));
        let raw = sign_legacy(0, Some(crate::driver::chain_id()), 1, TxKind::Create, vec![0x00]);
        inst.call(
            "brc20_transact",
            json!({"raw_tx_data": format!("0x{}", hex::encode(raw)), "timestamp": 2, "hash": h1, "tx_idx": 2, "inscription_id": "fixtureparkedi0", "inscription_byte_len": 2500, "op_return_tx_id": h1}),
        );
        inst.call("brc20_finaliseBlock", json!({"timestamp": 2, "hash": h1, "block_tx_count": 2}));
        inst.call("brc20_mine", json!([2, 3]));
        inst.call("brc20_commitToDatabase", json!([]));
        let mut f = Fixture {
            inst,
            ctx: ReqCtx { contract, contract_insc: insc, tx_hash, block_hash: h1, pkscript: PKSCRIPTS[0].to_string(), height: 3, open_hash: String::new(), open_ts: 0, open_count: 0, seq: 0, signer_nonce: 0 },
        };
        f.refresh(false);
        f
    }

    /// bring the instance to a known state (boundary, or one transaction into a block) and refresh ctx
    pub fn refresh(&mut self, mid_block: bool) {
        self.ctx.seq += 1;
        self.inst.call("brc20_clearCaches", json!([]));
        self.ctx.height = self.inst.call("eth_blockNumber", json!([])).ok().and_then(parse_u64).unwrap_or(0);
        self.ctx.signer_nonce = self.inst.call("eth_getTransactionCount", json!([addr_hex(signer_addr(0)), "latest"])).ok().and_then(parse_u64).unwrap_or(0);
        self.ctx.open_hash = b256_hex(keccak256(format!("rpcgen-open{}", self.ctx.seq)));
        self.ctx.open_ts = 50 + self.ctx.seq;
        self.ctx.open_count = 0;
        if mid_block {
            let p = well_typed("brc20_call", &self.ctx);
            if self.inst.call("brc20_call", p).is_ok() {
                self.ctx.open_count = 1;
            }
            self.ctx.seq += 1;
        }
    }
}
