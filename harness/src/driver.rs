//! In-process instance of the module: open / call / drop / reopen.
//!
//! Requests are JSON text dispatched through jsonrpsee's `Methods::raw_json_request`, i.e. through the
//! real parameter decoding and the real `RpcServer` handlers, without sockets.

use std::cell::RefCell;
use std::path::{Path, PathBuf};
use std::sync::atomic::{AtomicU64, Ordering};
use std::sync::Once;
use std::time::Duration;

use brc20_prog::verif as v;
use serde_json::{json, Value};

thread_local! {
    static RT: tokio::runtime::Runtime = tokio::runtime::Builder::new_current_thread()
        .enable_time()
        .build()
        .expect("tokio runtime");
    static LAST_PANIC: RefCell<Option<String>> = const { RefCell::new(None) };
}

static HOOK: Once = Once::new();

/// Install a panic hook that records message + location per thread and keeps stderr quiet
/// unless VERIF_VERBOSE is set. A panic inside a handler is an *observation* for the harness.
pub fn install_panic_hook() {
    HOOK.call_once(|| {
        let verbose = std::env::var("VERIF_VERBOSE").is_ok();
        let default = std::panic::take_hook();
        std::panic::set_hook(Box::new(move |info| {
            let msg = if let Some(s) = info.payload().downcast_ref::<&str>() {
                s.to_string()
            } else if let Some(s) = info.payload().downcast_ref::<String>() {
                s.clone()
            } else {
                "<non-string panic>".to_string()
            };
            let loc = info
                .location()
                .map(|l| format!("{}:{}", l.file(), l.line()))
                .unwrap_or_default();
            LAST_PANIC.with(|p| *p.borrow_mut() = Some(format!("{} @ {}", msg, loc)));
            // harness bugs (not in /repo sources or deps) are always shown
            let foreign = loc.contains("/repo/") || loc.contains(".cargo/registry") || loc.contains("/rustc/");
            if verbose || !foreign {
                default(info);
            }
        }));
    });
}

pub fn take_last_panic() -> Option<String> {
    LAST_PANIC.with(|p| p.borrow_mut().take())
}

#[derive(Debug, Clone, PartialEq)]
pub enum Resp {
    Ok(Value),
    Err { code: i64, message: String, data: Option<Value> },
    Panic(String),
}

impl Resp {
    pub fn is_ok(&self) -> bool {
        matches!(self, Resp::Ok(_))
    }
    pub fn is_err(&self) -> bool {
        matches!(self, Resp::Err { .. })
    }
    pub fn is_panic(&self) -> bool {
        matches!(self, Resp::Panic(_))
    }
    pub fn ok(&self) -> Option<&Value> {
        match self {
            Resp::Ok(v) => Some(v),
            _ => None,
        }
    }
    pub fn err_msg(&self) -> Option<&str> {
        match self {
            Resp::Err { message, .. } => Some(message),
            _ => None,
        }
    }
    pub fn to_json(&self) -> Value {
        match self {
            Resp::Ok(v) => json!({ "ok": v }),
            Resp::Err { code, message, data } => json!({"err": {"code": code, "message": message, "data": data}}),
            Resp::Panic(m) => json!({ "panic": m }),
        }
    }
}

static DIR_SEQ: AtomicU64 = AtomicU64::new(0);

pub fn scratch_root() -> PathBuf {
    let base = if Path::new("/dev/shm").is_dir() { PathBuf::from("/dev/shm") } else { std::env::temp_dir() };
    base.join(format!("brc20-verif-{}", std::process::id()))
}

pub fn fresh_dir(tag: &str) -> PathBuf {
    let n = DIR_SEQ.fetch_add(1, Ordering::Relaxed);
    let d = scratch_root().join(format!("{}-{}", tag, n));
    let _ = std::fs::remove_dir_all(&d);
    std::fs::create_dir_all(&d).expect("create scratch dir");
    d
}

pub fn cleanup_scratch() {
    let _ = std::fs::remove_dir_all(scratch_root());
}

/// Remove scratch roots of dead harness processes (e.g. after a kill).
pub fn cleanup_stale_scratch() {
    let base = if Path::new("/dev/shm").is_dir() { PathBuf::from("/dev/shm") } else { std::env::temp_dir() };
    if let Ok(rd) = std::fs::read_dir(&base) {
        for e in rd.flatten() {
            let name = e.file_name().to_string_lossy().to_string();
            if let Some(pid) = name.strip_prefix("brc20-verif-") {
                if let Ok(pid) = pid.parse::<u32>() {
                    if !Path::new(&format!("/proc/{}", pid)).exists() {
                        let _ = std::fs::remove_dir_all(e.path());
                    }
                }
            }
        }
    }
}

pub fn base_config(network: &str) -> brc20_prog::Brc20ProgConfig {
    let chain_id: u64 = if network == "bitcoin" || network == "mainnet" { 0x4252433230 } else { 0x425243323073 };
    brc20_prog::Brc20ProgConfig::new(
        "127.0.0.1:1".into(),
        false,
        None,
        None,
        true,
        30_000_000,
        "http://127.0.0.1:9".into(),
        "u".into(),
        "p".into(),
        network.into(),
        chain_id,
        false,
        "unused".into(),
        10 * 1024 * 1024,
        100 * 1024 * 1024,
        50,
    )
}

pub fn network() -> String {
    v::CONFIG.read().bitcoin_rpc_network.clone()
}

pub fn chain_id() -> u64 {
    v::CONFIG.read().chain_id
}

/// Set the process-global configuration (network etc.). Call once at start.
pub fn configure(network: &str) {
    let _ = rlimit::Resource::NOFILE.set(200_000, 200_000).or_else(|_| rlimit::Resource::NOFILE.set(8192, 8192));
    v::set_config(base_config(network));
}

pub struct Instance {
    pub dir: PathBuf,
    methods: Option<jsonrpsee::Methods>,
    owns_dir: bool,
    pub calls: u64,
}

impl Instance {
    pub fn fresh(tag: &str) -> Instance {
        let dir = fresh_dir(tag);
        let mut i = Instance { dir, methods: None, owns_dir: true, calls: 0 };
        i.open().expect("open fresh instance");
        i
    }

    pub fn at(dir: &Path) -> Result<Instance, String> {
        let mut i = Instance { dir: dir.to_path_buf(), methods: None, owns_dir: false, calls: 0 };
        i.open()?;
        Ok(i)
    }

    fn open(&mut self) -> Result<(), String> {
        let r = std::panic::catch_unwind(std::panic::AssertUnwindSafe(|| {
            let db = v::Brc20ProgDatabase::new(&self.dir).map_err(|e| e.to_string())?;
            let engine = v::BRC20ProgEngine::new(db);
            Ok::<_, String>(v::verif_rpc_methods(engine))
        }));
        match r {
            Ok(Ok(m)) => {
                self.methods = Some(m);
                Ok(())
            }
            Ok(Err(e)) => Err(e),
            Err(_) => Err(format!("panic while opening: {:?}", take_last_panic())),
        }
    }

    pub fn is_open(&self) -> bool {
        self.methods.is_some()
    }

    /// Drop the engine and with it every RocksDB handle (models a clean process stop or,
    /// because the module never writes on drop, a process death between calls).
    pub fn close(&mut self) {
        self.methods = None;
    }

    pub fn reopen(&mut self) -> Result<(), String> {
        self.close();
        self.open()
    }

    pub fn method_names(&self) -> Vec<&'static str> {
        let mut v: Vec<&'static str> = self.methods.as_ref().unwrap().method_names().collect();
        v.sort();
        v
    }

    /// handle on the method table for use from another thread
    pub fn methods(&self) -> jsonrpsee::Methods {
        self.methods.as_ref().expect("instance is closed").clone()
    }

    /// Send a raw JSON-RPC request text.
    pub fn raw(&mut self, request: &str) -> Resp {
        self.calls += 1;
        let methods = self.methods.as_ref().expect("instance is closed");
        raw_on(methods, request)
    }
}

/// dispatch one request on the calling thread's runtime
pub fn raw_on(methods: &jsonrpsee::Methods, request: &str) -> Resp {
    {
        let _ = take_last_panic();
        let r = std::panic::catch_unwind(std::panic::AssertUnwindSafe(|| {
            RT.with(|rt| {
                rt.block_on(async {
                    tokio::time::timeout(Duration::from_secs(120), methods.raw_json_request(request, 1)).await
                })
            })
        }));
        match r {
            Err(_) => Resp::Panic(take_last_panic().unwrap_or_else(|| "panic".into())),
            Ok(Err(_elapsed)) => Resp::Panic("WATCHDOG: no answer within 120 s".into()),
            Ok(Ok(Err(e))) => Resp::Err { code: -32700, message: format!("request not parseable: {}", e), data: None },
            Ok(Ok(Ok((raw, _rx)))) => {
                // responses can nest deeply (call traces of recursive contracts): no recursion limit
                let v: Value = {
                    let mut de = serde_json::Deserializer::from_str(raw.get());
                    de.disable_recursion_limit();
                    serde::Deserialize::deserialize(&mut de).unwrap_or(Value::Null)
                };
                if let Some(res) = v.get("result") {
                    Resp::Ok(res.clone())
                } else if let Some(e) = v.get("error") {
                    Resp::Err {
                        code: e.get("code").and_then(|c| c.as_i64()).unwrap_or(0),
                        message: e.get("message").and_then(|m| m.as_str()).unwrap_or("").to_string(),
                        data: e.get("data").cloned(),
                    }
                } else {
                    Resp::Err { code: 0, message: format!("malformed response: {}", raw.get()), data: None }
                }
            }
        }
    }
}

impl Instance {
    pub fn call(&mut self, method: &str, params: Value) -> Resp {
        let req = json!({"jsonrpc": "2.0", "id": 1, "method": method, "params": params});
        self.raw(&req.to_string())
    }
}

impl Drop for Instance {
    fn drop(&mut self) {
        self.methods = None;
        if self.owns_dir {
            let _ = std::fs::remove_dir_all(&self.dir);
        }
    }
}
