//! Real server through the public `start()` on a loopback port + a minimal blocking HTTP/1.1 client.
use std::io::{Read, Write};
use std::net::{TcpListener, TcpStream};
use std::time::Duration;

use serde_json::Value;

pub fn free_port() -> u16 {
    TcpListener::bind("127.0.0.1:0").unwrap().local_addr().unwrap().port()
}

pub struct Server {
    pub port: u16,
    handle: Option<jsonrpsee::server::ServerHandle>,
    rt: tokio::runtime::Runtime,
}

pub fn config(network: &str, dir: &std::path::Path, port: u16, auth: Option<(&str, &str)>, traces: bool) -> brc20_prog::Brc20ProgConfig {
    let mut c = crate::driver::base_config(network);
    c.brc20_prog_rpc_server_url = format!("127.0.0.1:{}", port);
    c.db_path = dir.to_string_lossy().to_string();
    c.evm_record_traces = traces;
    if let Some((u, p)) = auth {
        c.brc20_prog_rpc_server_enable_auth = true;
        c.brc20_prog_rpc_server_user = Some(u.to_string());
        c.brc20_prog_rpc_server_password = Some(p.to_string());
    }
    c
}

impl Server {
    pub fn start(cfg: brc20_prog::Brc20ProgConfig) -> Result<Server, String> {
        let port: u16 = cfg.brc20_prog_rpc_server_url.rsplit(':').next().and_then(|p| p.parse().ok()).unwrap_or(0);
        let rt = tokio::runtime::Builder::new_multi_thread().worker_threads(2).enable_all().build().map_err(|e| e.to_string())?;
        let r = std::panic::catch_unwind(std::panic::AssertUnwindSafe(|| rt.block_on(async { brc20_prog::start(cfg).await.map_err(|e| e.to_string()) })));
        match r {
            Ok(Ok(h)) => Ok(Server { port, handle: Some(h), rt }),
            Ok(Err(e)) => Err(e),
            Err(_) => Err(format!("start() panicked: {:?}", crate::driver::take_last_panic())),
        }
    }
    pub fn stop(mut self) {
        if let Some(h) = self.handle.take() {
            let _ = h.stop();
            self.rt.block_on(async { h.stopped().await });
        }
    }
}

#[derive(Debug, Clone)]
pub struct HttpResp {
    pub status: u16,
    pub body: String,
}

impl HttpResp {
    pub fn json(&self) -> Value {
        serde_json::from_str(&self.body).unwrap_or(Value::Null)
    }
}

/// POST `body` with optional extra header lines (each without CRLF)
pub fn post(port: u16, body: &str, headers: &[String]) -> Result<HttpResp, String> {
    let mut s = TcpStream::connect(("127.0.0.1", port)).map_err(|e| e.to_string())?;
    s.set_read_timeout(Some(Duration::from_secs(60))).ok();
    let mut req = format!("POST / HTTP/1.1\r\nHost: 127.0.0.1:{}\r\nContent-Type: application/json\r\nContent-Length: {}\r\nConnection: close\r\n", port, body.len());
    for h in headers {
        req.push_str(h);
        req.push_str("\r\n");
    }
    req.push_str("\r\n");
    s.write_all(req.as_bytes()).map_err(|e| e.to_string())?;
    s.write_all(body.as_bytes()).map_err(|e| e.to_string())?;
    let mut buf = Vec::new();
    s.read_to_end(&mut buf).map_err(|e| e.to_string())?;
    let text = String::from_utf8_lossy(&buf).to_string();
    let (head, rest) = text.split_once("\r\n\r\n").unwrap_or((&text, ""));
    let status = head.split_whitespace().nth(1).and_then(|c| c.parse().ok()).unwrap_or(0);
    let body = if head.to_lowercase().contains("transfer-encoding: chunked") { dechunk(rest) } else { rest.to_string() };
    Ok(HttpResp { status, body })
}

fn dechunk(mut s: &str) -> String {
    let mut out = String::new();
    loop {
        let Some((len, rest)) = s.split_once("\r\n") else { break };
        let n = usize::from_str_radix(len.trim(), 16).unwrap_or(0);
        if n == 0 || rest.len() < n {
            break;
        }
        out.push_str(&rest[..n]);
        s = rest[n..].trim_start_matches("\r\n");
    }
    out
}

pub fn basic(user: &str, pass: &str) -> String {
    use base64::Engine;
    format!("Authorization: Basic {}", base64::prelude::BASE64_STANDARD.encode(format!("{}:{}", user, pass)))
}
