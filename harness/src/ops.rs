//! The call-history language, proptest strategies for it, and the runner that turns abstract ops
//! into protocol-conformant concrete requests (keeping the bookkeeping an indexer keeps).

use alloy::consensus::{SignableTransaction, TxLegacy};
use alloy::network::TxSignerSync;
use alloy::primitives::{keccak256, Address, Bytes, TxKind, B256, U256};
use alloy_signer_local::PrivateKeySigner;
use proptest::prelude::*;
use serde::{Deserialize, Serialize};
use serde_json::{json, Value};

use crate::driver::{Instance, Resp};
use crate::evm::{self, Env, Prog, ProgCfg};
use crate::observe::Universe;

pub const PKSCRIPTS: [&str; 5] = [
    "76a914f1b8e7e4f3f1f2f1e1f1f1f1f1f1f1f1f1f1f1f188ac",
    "00142b05d564e6a7a33c087f16e0f730d1440123799d",
    "5120a60869f0dbcf1dc659c9cecbaf8050135ea9e8cdc487053f1dc6880949dc684c",
    "7465737420706b736372697074",
    "6a",
];
pub const TICKERS: [&str; 4] = ["ordi", "ORDI", "sats", "x"];

pub fn pk_addr(i: u8) -> Address {
    let b = hex::decode(PKSCRIPTS[i as usize % PKSCRIPTS.len()]).unwrap();
    Address::from_slice(&keccak256(b)[12..])
}

pub fn signer(i: u8) -> PrivateKeySigner {
    PrivateKeySigner::from_bytes(&keccak256([b's', b'k', i % 4])).expect("valid key")
}

pub fn signer_addr(i: u8) -> Address {
    signer(i).address()
}

pub fn controller() -> Address {
    "0xc54dd4581af2dbf18e4d90840226756e9d2b3cdb".parse().unwrap()
}

pub fn indexer_addr() -> Address {
    "0x0000000000000000000000000000000000003Ca6".parse().unwrap()
}

pub fn sign_legacy(signer_idx: u8, chain_id: Option<u64>, nonce: u64, to: TxKind, data: Vec<u8>) -> Vec<u8> {
    let mut tx = TxLegacy { chain_id, nonce, gas_price: 0, gas_limit: 0, to, value: U256::ZERO, input: Bytes::from(data) };
    let sig = signer(signer_idx).sign_transaction_sync(&mut tx).expect("sign");
    let signed = tx.into_signed(sig);
    let mut out = Vec::new();
    signed.rlp_encode(&mut out);
    out
}

pub fn b256_hex(b: B256) -> String {
    format!("0x{}", hex::encode(b))
}
pub fn addr_hex(a: Address) -> String {
    format!("0x{}", hex::encode(a))
}
pub fn parse_addr(v: &Value) -> Option<Address> {
    v.as_str().and_then(|s| s.parse().ok())
}
pub fn parse_u64(v: &Value) -> Option<u64> {
    match v {
        Value::String(s) => {
            if let Some(h) = s.strip_prefix("0x") {
                u64::from_str_radix(h, 16).ok()
            } else {
                s.parse().ok()
            }
        }
        Value::Number(n) => n.as_u64(),
        _ => None,
    }
}

#[derive(Clone, Debug, Serialize, Deserialize, PartialEq, Eq, Hash)]
pub enum HashSel {
    /// zero: the server derives the hash from the height
    Zero,
    /// a hash never used before in this history
    Fresh,
    /// the hash of a block that was orphaned earlier (falls back to Fresh)
    ReuseOrphan(u16),
}

#[derive(Clone, Debug, Serialize, Deserialize, PartialEq, Eq, Hash)]
pub struct Blk {
    pub hash: HashSel,
    pub ts: u64,
}

#[derive(Clone, Debug, Serialize, Deserialize, PartialEq, Eq, Hash)]
pub enum Len {
    /// inscription_byte_len as given
    Bytes(u64),
    /// 2500 bytes = 30 M gas, the configured eth_call limit
    Std,
}

impl Len {
    pub fn bytes(&self) -> u64 {
        match self {
            Len::Bytes(b) => *b,
            Len::Std => 2500,
        }
    }
}

#[derive(Clone, Debug, Serialize, Deserialize, PartialEq, Eq, Hash)]
pub enum Payload {
    Create(Prog),
    /// call a known contract: (index, selector, arg const index)
    Call(u16, u8, u8),
    /// raw bytes to target index (None = create)
    Raw(Option<u16>, Vec<u8>),
}

#[derive(Clone, Debug, Serialize, Deserialize, PartialEq, Eq, Hash)]
pub enum NonceSel {
    Next,
    /// account nonce + k (k may be negative)
    Offset(i8),
}

#[derive(Clone, Debug, Serialize, Deserialize, PartialEq, Eq, Hash)]
pub enum Op {
    Init { hash: HashSel, ts: u64 },
    Mine { n: u8, ts: u64 },
    Deploy { from: u8, prog: Prog, len: Len, blk: Blk, b64: bool },
    Call { from: u8, target: u16, by_insc: bool, sel: u8, arg: u8, len: Len, blk: Blk, b64: bool },
    RawCall { from: u8, target: u16, data: Vec<u8>, len: Len, blk: Blk },
    Transact { signer: u8, nonce: NonceSel, payload: Payload, len: Len, blk: Blk, b64: bool, txid: u8 },
    Deposit { to: u8, tick: u8, amt: u8, blk: Blk },
    Withdraw { from: u8, tick: u8, amt: u8, blk: Blk },
    Finalise { blk: Blk },
    Commit,
    Clear,
    Reopen,
    /// keep_soft: issue the reorg without finalising a block that only holds parked signed transactions
    /// (the engine does not regard such a block as under construction)
    Reorg {
        depth: u8,
        #[serde(default)]
        keep_soft: bool,
    },
}

pub fn amount(i: u8) -> U256 {
    match i % 8 {
        0 => U256::ZERO,
        1 => U256::from(1u64),
        2 => U256::from(1000u64),
        3 => U256::from(7u64),
        4 => U256::from(1u64) << 255,
        5 => U256::MAX,
        6 => U256::from(123456789u64),
        _ => U256::from(50u64),
    }
}

// ---------------------------------------------------------------------------------------------
// strategies

pub fn ts_strategy() -> impl Strategy<Value = u64> {
    prop_oneof![
        4 => 0u64..100_000,
        1 => Just(0u64),
        1 => Just(u64::MAX),
        1 => Just(1u64 << 32),
        1 => any::<u64>(),
    ]
}

pub fn hash_sel() -> impl Strategy<Value = HashSel> {
    prop_oneof![3 => Just(HashSel::Fresh), 2 => Just(HashSel::Zero), 1 => any::<u16>().prop_map(HashSel::ReuseOrphan)]
}

pub fn blk() -> impl Strategy<Value = Blk> {
    (hash_sel(), ts_strategy()).prop_map(|(hash, ts)| Blk { hash, ts })
}

pub fn len_strategy() -> impl Strategy<Value = Len> {
    prop_oneof![
        12 => Just(Len::Std),
        1 => Just(Len::Bytes(0)),
        1 => Just(Len::Bytes(1)),
        1 => (2u64..12).prop_map(Len::Bytes),
        1 => (12u64..200).prop_map(Len::Bytes),
    ]
}

#[derive(Clone, Copy, Debug)]
pub struct HistCfg {
    pub prog: ProgCfg,
    pub min_ops: usize,
    pub max_ops: usize,
    pub w_commit: u32,
    pub w_clear: u32,
    pub w_reopen: u32,
    pub w_reorg: u32,
    pub w_mine: u32,
    pub w_transact: u32,
    pub w_bridge: u32,
    pub max_mine: u8,
}

impl HistCfg {
    pub fn general() -> Self {
        HistCfg {
            prog: ProgCfg::any(),
            min_ops: 8,
            max_ops: 60,
            w_commit: 6,
            w_clear: 2,
            w_reopen: 2,
            w_reorg: 6,
            w_mine: 6,
            w_transact: 10,
            w_bridge: 5,
            max_mine: 12,
        }
    }
    pub fn no_persistence_events(mut self) -> Self {
        self.w_commit = 0;
        self.w_clear = 0;
        self.w_reopen = 0;
        self.w_reorg = 0;
        self
    }
}

pub fn payload_strategy(cfg: ProgCfg) -> impl Strategy<Value = Payload> {
    prop_oneof![
        3 => evm::prog_strategy(cfg).prop_map(Payload::Create),
        6 => (any::<u16>(), 0u8..5, 0u8..6).prop_map(|(t, s, a)| Payload::Call(t, s, a)),
        1 => (proptest::option::of(any::<u16>()), proptest::collection::vec(any::<u8>(), 0..40)).prop_map(|(t, d)| Payload::Raw(t, d)),
    ]
}

pub fn nonce_sel() -> impl Strategy<Value = NonceSel> {
    prop_oneof![
        6 => Just(NonceSel::Next),
        5 => (1i8..4).prop_map(NonceSel::Offset),
        1 => (4i8..13).prop_map(NonceSel::Offset),
        1 => (-2i8..0).prop_map(NonceSel::Offset),
    ]
}

pub fn op_strategy(c: HistCfg) -> BoxedStrategy<Op> {
    let mut v: Vec<(u32, BoxedStrategy<Op>)> = vec![
        (
            8,
            (0u8..5, evm::prog_strategy(c.prog), len_strategy(), blk(), any::<bool>())
                .prop_map(|(from, prog, len, blk, b64)| Op::Deploy { from, prog, len, blk, b64 })
                .boxed(),
        ),
        (
            20,
            (0u8..5, any::<u16>(), prop::bool::weighted(0.2), 0u8..5, 0u8..6, len_strategy(), blk(), any::<bool>())
                .prop_map(|(from, target, by_insc, sel, arg, len, blk, b64)| Op::Call { from, target, by_insc, sel, arg, len, blk, b64 })
                .boxed(),
        ),
        (
            2,
            (0u8..5, any::<u16>(), proptest::collection::vec(any::<u8>(), 0..40), len_strategy(), blk())
                .prop_map(|(from, target, data, len, blk)| Op::RawCall { from, target, data, len, blk })
                .boxed(),
        ),
        (12, blk().prop_map(|blk| Op::Finalise { blk }).boxed()),
    ];
    if c.w_transact > 0 {
        v.push((
            c.w_transact,
            (0u8..3, nonce_sel(), payload_strategy(c.prog), len_strategy(), blk(), any::<bool>(), 0u8..4)
                .prop_map(|(signer, nonce, payload, len, blk, b64, txid)| Op::Transact { signer, nonce, payload, len, blk, b64, txid })
                .boxed(),
        ));
    }
    if c.w_bridge > 0 {
        v.push((c.w_bridge, (0u8..5, 0u8..4, 0u8..8, blk()).prop_map(|(to, tick, amt, blk)| Op::Deposit { to, tick, amt, blk }).boxed()));
        v.push((c.w_bridge / 2 + 1, (0u8..5, 0u8..4, 0u8..8, blk()).prop_map(|(from, tick, amt, blk)| Op::Withdraw { from, tick, amt, blk }).boxed()));
    }
    if c.w_mine > 0 {
        v.push((c.w_mine, (1u8..=c.max_mine, ts_strategy()).prop_map(|(n, ts)| Op::Mine { n, ts }).boxed()));
    }
    if c.w_commit > 0 {
        v.push((c.w_commit, Just(Op::Commit).boxed()));
    }
    if c.w_clear > 0 {
        v.push((c.w_clear, Just(Op::Clear).boxed()));
    }
    if c.w_reopen > 0 {
        v.push((c.w_reopen, Just(Op::Reopen).boxed()));
    }
    if c.w_reorg > 0 {
        v.push((c.w_reorg, (prop_oneof![6 => 0u8..6, 3 => 6u8..13, 1 => 13u8..30], prop::bool::weighted(0.25)).prop_map(|(depth, keep_soft)| Op::Reorg { depth, keep_soft }).boxed()));
    }
    proptest::strategy::Union::new_weighted(v).boxed()
}

pub fn first_op() -> impl Strategy<Value = Op> {
    prop_oneof![
        9 => (prop_oneof![Just(HashSel::Fresh), Just(HashSel::Zero)], ts_strategy()).prop_map(|(hash, ts)| Op::Init { hash, ts }),
        1 => (1u8..4, ts_strategy()).prop_map(|(n, ts)| Op::Mine { n, ts }),
    ]
}

pub fn history_strategy(c: HistCfg) -> BoxedStrategy<Vec<Op>> {
    (first_op(), proptest::collection::vec(op_strategy(c), c.min_ops..=c.max_ops))
        .prop_map(|(f, mut rest)| {
            rest.insert(0, f);
            rest
        })
        .boxed()
}

// ---------------------------------------------------------------------------------------------
// chain model + runner

#[derive(Clone, Debug, PartialEq, Serialize, Deserialize)]
pub struct Req {
    pub method: String,
    pub params: Value,
    /// canonical response the instance under test gave (compared during a fresh replay)
    #[serde(default)]
    pub resp: Option<Value>,
}

impl Req {
    pub fn new(method: &str, params: Value) -> Req {
        Req { method: method.to_string(), params, resp: None }
    }
    pub fn with(method: &str, params: Value, resp: &Resp) -> Req {
        Req { method: method.to_string(), params, resp: Some(crate::observe::canon_resp(resp)) }
    }
}

#[derive(Clone, Debug, Default)]
pub struct BlockRec {
    pub reqs: Vec<Req>,
    pub hash: Option<B256>,
    /// number of transactions the indexer was told were appended
    pub tx_count: u64,
    pub state_changing: bool,
    /// receipts returned to the indexer for this block, in order, with the inscription id of the call
    pub receipts: Vec<(Value, String)>,
    /// block created by brc20_initialise (its deployment receipt is not returned to the indexer)
    pub is_init: bool,
}

#[derive(Clone, Debug, Default)]
pub struct ChainModel {
    /// index = height
    pub blocks: Vec<BlockRec>,
    /// number of leading blocks that are durable
    pub committed: usize,
    /// highest height ever finalised on this database directory
    pub hef: Option<u64>,
    pub orphan_hashes: Vec<B256>,
}

impl ChainModel {
    pub fn height(&self) -> Option<u64> {
        if self.blocks.is_empty() {
            None
        } else {
            Some(self.blocks.len() as u64 - 1)
        }
    }
    pub fn next_height(&self) -> u64 {
        self.blocks.len() as u64
    }
    /// the property's acceptance rule for brc20_reorg(n)
    pub fn reorg_accepted(&self, n: u64) -> Option<bool> {
        let h = self.height()?;
        if n > h {
            return Some(false);
        }
        Some(self.hef.unwrap_or(h) - n <= 10)
    }
    pub fn drop_uncommitted(&mut self) {
        while self.blocks.len() > self.committed {
            let b = self.blocks.pop().unwrap();
            if let Some(h) = b.hash {
                self.orphan_hashes.push(h);
            }
        }
    }
    pub fn reorg_to(&mut self, n: u64) {
        while self.blocks.len() as u64 > n + 1 {
            let b = self.blocks.pop().unwrap();
            if let Some(h) = b.hash {
                self.orphan_hashes.push(h);
            }
        }
        self.committed = self.blocks.len();
    }
    /// the concrete requests that make up the surviving chain
    pub fn effective_requests(&self) -> Vec<Req> {
        self.blocks.iter().flat_map(|b| b.reqs.iter().cloned()).collect()
    }
}

#[derive(Clone, Debug)]
pub struct OpenBlock {
    pub hash_param: B256,
    pub ts: u64,
    pub count: u64,
    pub reqs: Vec<Req>,
    pub state_changing: bool,
    pub receipts: Vec<(Value, String)>,
}

#[derive(Clone, Debug)]
pub struct Event {
    pub op_idx: usize,
    pub req: Req,
    pub resp: Resp,
}

#[derive(Clone, Debug, Default)]
pub struct Stats {
    pub reorg_accepted: u32,
    pub reorg_refused: u32,
    pub reorg_noop: u32,
    pub reorg_after_commit: u32,
    pub reorg_orphaned_state: u32,
    pub commits: u32,
    pub clears_midblock: u32,
    pub clears: u32,
    pub reopens: u32,
    pub parked: u32,
    pub drained: u32,
    pub failed_txs: u32,
    pub ok_txs: u32,
    pub logs: u32,
    pub max_block_txs: u64,
    pub creates: u32,
    pub blocks: u32,
}

pub struct Runner {
    pub inst: Instance,
    pub model: ChainModel,
    pub open: Option<OpenBlock>,
    pub uni: Universe,
    pub contracts: Vec<Address>,
    pub contract_inscs: Vec<String>,
    /// program of each known contract (None for raw-bytes creations)
    pub contract_progs: Vec<Option<Prog>>,
    pending_prog: Option<Prog>,
    pub events: Vec<Event>,
    pub stats: Stats,
    pub init_req: Option<Req>,
    /// receipt of the controller deployment (not returned to the indexer; looked up on demand)
    pub init_receipt: Option<Value>,
    /// keccak(raw signed tx) -> inscription id it was submitted with (drained txs keep their own)
    pub signed_insc: std::collections::HashMap<String, String>,
    seq: u64,
    cur_op: usize,
    /// set when the harness's own bookkeeping noticed something impossible (reported by checks)
    pub anomalies: Vec<String>,
}

pub fn init_effective(resp: &Resp) -> bool {
    // brc20_initialise creates the genesis block and then reports the unreachable Bitcoin node:
    // an environment error that the property text puts out of scope.
    match resp {
        Resp::Ok(_) => true,
        Resp::Err { message, .. } => message.contains("Bitcoin RPC"),
        Resp::Panic(_) => false,
    }
}

impl Runner {
    pub fn new(tag: &str) -> Runner {
        Runner::with_instance(Instance::fresh(tag))
    }

    pub fn with_instance(inst: Instance) -> Runner {
        let mut uni = Universe::default();
        uni.add_addr(controller());
        uni.add_addr(indexer_addr());
        for i in 0..PKSCRIPTS.len() as u8 {
            uni.add_addr(pk_addr(i));
        }
        for i in 0..4u8 {
            uni.add_addr(signer_addr(i));
            uni.add_addr(evm::eoa(i));
        }
        Runner {
            inst,
            model: ChainModel::default(),
            open: None,
            uni,
            contracts: vec![],
            contract_inscs: vec![],
            contract_progs: vec![],
            pending_prog: None,
            events: vec![],
            stats: Stats::default(),
            init_req: None,
            init_receipt: None,
            signed_insc: std::collections::HashMap::new(),
            seq: 0,
            cur_op: 0,
            anomalies: vec![],
        }
    }

    fn next_seq(&mut self) -> u64 {
        self.seq += 1;
        self.seq
    }

    pub fn fresh_hash(&mut self) -> B256 {
        let s = self.next_seq();
        keccak256(format!("blk{}", s))
    }

    fn fresh_insc(&mut self) -> String {
        let s = self.next_seq();
        let id = format!("{}i0", hex::encode(keccak256(format!("insc{}", s))));
        self.uni.inscs.insert(id.clone());
        id
    }

    fn resolve_hash(&mut self, h: &HashSel) -> B256 {
        match h {
            HashSel::Zero => B256::ZERO,
            HashSel::Fresh => self.fresh_hash(),
            HashSel::ReuseOrphan(i) => match evm::pick(&self.model.orphan_hashes, *i) {
                // only reuse if it is not part of the surviving chain again, and never a hash the
                // server derived from a height (an indexer that supplies hashes supplies real ones;
                // a derived hash at another height legitimately collides with a later zero-hash block)
                Some(h) if !self.model.blocks.iter().any(|b| b.hash == Some(h)) && h.0[..24] != [0u8; 24] => h,
                _ => self.fresh_hash(),
            },
        }
    }

    /// (hash param, timestamp) of the block under construction, opening one if necessary
    fn block_params(&mut self, blk: &Blk) -> (B256, u64) {
        if let Some(o) = &self.open {
            return (o.hash_param, o.ts);
        }
        let h = self.resolve_hash(&blk.hash);
        self.open = Some(OpenBlock { hash_param: h, ts: blk.ts, count: 0, reqs: vec![], state_changing: false, receipts: vec![] });
        (h, blk.ts)
    }

    pub fn env_contracts(&self) -> Vec<Address> {
        self.contracts.clone()
    }

    pub fn send(&mut self, method: &str, params: Value) -> Resp {
        let resp = self.inst.call(method, params.clone());
        self.events.push(Event { op_idx: self.cur_op, req: Req::new(method, params), resp: resp.clone() });
        resp
    }

    fn note_receipt(&mut self, r: &Value, insc: &str, created_by_this: bool) {
        if let Some(h) = r.get("transactionHash").and_then(|h| h.as_str()) {
            self.uni.txs.insert(h.to_string());
        }
        let ok = r.get("status").map(|s| parse_u64(s) == Some(1)).unwrap_or(false);
        if ok {
            self.stats.ok_txs += 1;
        } else {
            self.stats.failed_txs += 1;
        }
        if let Some(logs) = r.get("logs").and_then(|l| l.as_array()) {
            self.stats.logs += logs.len() as u32;
            for l in logs {
                if let Some(a) = l.get("address").and_then(parse_addr) {
                    self.uni.add_addr(a);
                }
            }
        }
        if let Some(a) = r.get("contractAddress").and_then(parse_addr) {
            self.uni.add_addr(a);
            if created_by_this && !self.contracts.contains(&a) {
                self.contracts.push(a);
                self.contract_inscs.push(insc.to_string());
                self.contract_progs.push(self.pending_prog.take());
            }
            self.stats.creates += 1;
        }
        if let Some(a) = r.get("to").and_then(parse_addr) {
            self.uni.add_addr(a);
        }
    }

    /// Issue one transaction-type request belonging to the open block. Returns the response.
    fn tx_request(&mut self, method: &str, mut params: serde_json::Map<String, Value>, blk: &Blk, insc: String, is_create: bool) -> Resp {
        let (h, ts) = self.block_params(blk);
        let count = self.open.as_ref().unwrap().count;
        params.insert("timestamp".into(), json!(ts));
        params.insert("hash".into(), json!(b256_hex(h)));
        params.insert("tx_idx".into(), json!(count));
        params.insert("inscription_id".into(), json!(insc));
        let params = Value::Object(params);
        let resp = self.send(method, params.clone());
        match &resp {
            Resp::Ok(v) => {
                let receipts: Vec<Value> = match v {
                    Value::Array(a) => a.clone(),
                    Value::Null => vec![],
                    o => vec![o.clone()],
                };
                for r in &receipts {
                    self.note_receipt(r, &insc, is_create);
                }
                if method == "brc20_transact" {
                    if receipts.is_empty() {
                        self.stats.parked += 1;
                    } else if receipts.len() > 1 {
                        self.stats.drained += receipts.len() as u32 - 1;
                    }
                }
                let o = self.open.as_mut().unwrap();
                o.count += receipts.len() as u64;
                for r in &receipts {
                    let own = r.get("transactionHash").and_then(|h| h.as_str()).and_then(|h| self.signed_insc.get(h)).cloned();
                    o.receipts.push((r.clone(), own.unwrap_or_else(|| insc.clone())));
                }
                o.reqs.push(Req::with(method, params, &resp));
                o.state_changing = true;
            }
            Resp::Err { .. } | Resp::Panic(_) => {
                // a rejected call is not part of the block; if nothing else is in it, the block is not open
                if self.open.as_ref().map(|o| o.reqs.is_empty()).unwrap_or(false) {
                    self.open = None;
                }
            }
        }
        resp
    }

    /// submit a hand-built transaction request in the current/new block (block fields, inscription id,
    /// byte length and txid are filled in)
    pub fn raw_tx(&mut self, method: &str, params: Value, blk: &Blk, len: u64, is_create: bool) -> Resp {
        let mut p = params.as_object().cloned().unwrap_or_default();
        if method != "brc20_deposit" && method != "brc20_withdraw" {
            p.insert("inscription_byte_len".into(), json!(len));
            let txid = self.txid_param();
            p.insert("op_return_tx_id".into(), json!(txid));
        }
        let insc = self.fresh_insc();
        self.tx_request(method, p, blk, insc, is_create)
    }

    pub fn encode_data(bytes: &[u8], b64: bool) -> (Option<Value>, Option<Value>) {
        if b64 {
            match brc20_prog::types::Base64Bytes::from_bytes(Bytes::from(bytes.to_vec())) {
                Ok(b) => (None, Some(json!(b.to_string()))),
                Err(_) => (Some(json!(format!("0x{}", hex::encode(bytes)))), None),
            }
        } else {
            (Some(json!(format!("0x{}", hex::encode(bytes)))), None)
        }
    }

    fn data_params(p: &mut serde_json::Map<String, Value>, bytes: &[u8], b64: bool, hex_key: &str, b64_key: &str) {
        let (h, b) = Self::encode_data(bytes, b64);
        if let Some(h) = h {
            p.insert(hex_key.into(), h);
        }
        if let Some(b) = b {
            p.insert(b64_key.into(), b);
        }
    }

    pub fn txid_param(&mut self) -> String {
        let s = self.next_seq();
        b256_hex(keccak256(format!("txid{}", s)))
    }

    pub fn finalise_open(&mut self, blk: &Blk) -> Resp {
        let (h, ts) = self.block_params(blk);
        let o = self.open.clone().unwrap();
        let params = json!({"timestamp": ts, "hash": b256_hex(h), "block_tx_count": o.count});
        let resp = self.send("brc20_finaliseBlock", params.clone());
        if resp.is_ok() {
            let mut reqs = o.reqs.clone();
            reqs.push(Req::with("brc20_finaliseBlock", params, &resp));
            self.push_block(reqs, o.count, o.state_changing);
            self.model.blocks.last_mut().unwrap().receipts = o.receipts.clone();
            self.open = None;
        } else {
            self.anomalies.push(format!("finalise of a conformant block failed: {:?}", resp));
            // fall back to the state of the engine: drop the block through clearCaches semantics is not
            // possible without losing more; leave it open so that later ops fail loudly
        }
        resp
    }

    fn push_block(&mut self, reqs: Vec<Req>, tx_count: u64, state_changing: bool) {
        let height = self.model.next_height();
        // learn the hash the server assigned
        let hash = match self.inst.call("eth_getBlockByNumber", json!([height.to_string(), false])) {
            Resp::Ok(b) => b.get("hash").and_then(|h| h.as_str()).and_then(|s| s.parse::<B256>().ok()),
            _ => None,
        };
        if let Some(h) = hash {
            self.uni.block_hashes.insert(b256_hex(h));
        }
        self.model.blocks.push(BlockRec { reqs, hash, tx_count, state_changing, receipts: vec![], is_init: false });
        self.model.hef = Some(self.model.hef.map_or(height, |m| m.max(height)));
        self.uni.max_height = self.uni.max_height.max(height);
        self.stats.blocks += 1;
        self.stats.max_block_txs = self.stats.max_block_txs.max(tx_count);
    }

    /// finalise the block under construction (if any) so that boundary-only ops are conformant
    pub fn to_boundary(&mut self) {
        if self.open.is_some() {
            self.finalise_open(&Blk { hash: HashSel::Zero, ts: 0 });
        }
    }

    pub fn at_boundary(&self) -> bool {
        self.open.is_none()
    }

    /// a block that only holds parked signed transactions: the engine counts no transaction in it
    pub fn soft_open(&self) -> bool {
        self.open.as_ref().map(|o| o.count == 0 && !o.reqs.is_empty()).unwrap_or(false)
    }

    pub fn account_nonce(&mut self, a: Address) -> u64 {
        match self.inst.call("eth_getTransactionCount", json!([addr_hex(a), "latest"])) {
            Resp::Ok(v) => parse_u64(&v).unwrap_or(0),
            _ => 0,
        }
    }

    pub fn build_payload(&self, payload: &Payload) -> (TxKind, Vec<u8>, bool) {
        let contracts = self.env_contracts();
        let env = Env { contracts: &contracts, controller: controller() };
        match payload {
            Payload::Create(p) => (TxKind::Create, evm::build_init(p, &env), true),
            Payload::Call(t, s, a) => {
                let to = evm::pick(&contracts, *t).unwrap_or_else(|| evm::eoa(1));
                (TxKind::Call(to), evm::calldata(*s, evm::const_val(*a)), false)
            }
            Payload::Raw(t, d) => match t {
                Some(t) => (TxKind::Call(evm::pick(&contracts, *t).unwrap_or_else(|| evm::eoa(2))), d.clone(), false),
                None => (TxKind::Create, d.clone(), true),
            },
        }
    }

    pub fn apply(&mut self, idx: usize, op: &Op) {
        self.cur_op = idx;
        match op {
            Op::Init { hash, ts } => {
                self.to_boundary();
                if let Some(r) = self.init_req.clone() {
                    // re-initialise, as an indexer does at every start: must be a no-op
                    self.send(&r.method, r.params);
                    return;
                }
                if !self.model.blocks.is_empty() {
                    return;
                }
                let h = self.resolve_hash(hash);
                let params = json!({"genesis_hash": b256_hex(h), "genesis_timestamp": ts, "genesis_height": 0});
                let resp = self.send("brc20_initialise", params.clone());
                if init_effective(&resp) {
                    let req = Req::new("brc20_initialise", params);
                    self.init_req = Some(req.clone());
                    self.push_block(vec![req], 1, true);
                    self.model.blocks.last_mut().unwrap().is_init = true;
                    // the controller deployment's receipt is not returned; learn its hash
                    if let Resp::Ok(b) = self.inst.call("eth_getBlockByNumber", json!(["0", false])) {
                        if let Some(txs) = b.get("transactions").and_then(|t| t.as_array()) {
                            for t in txs {
                                if let Some(s) = t.as_str() {
                                    self.uni.txs.insert(s.to_string());
                                }
                            }
                        }
                    }
                    self.uni.inscs.insert("BRC20_CONTROLLER_INIT".into());
                } else {
                    self.anomalies.push(format!("initialise on an empty database failed: {:?}", resp));
                }
            }
            Op::Mine { n, ts } => {
                self.to_boundary();
                let params = json!({"block_count": *n as u64, "timestamp": ts});
                let resp = self.send("brc20_mine", params);
                if resp.is_ok() {
                    for _ in 0..*n {
                        let one = Req::with("brc20_mine", json!({"block_count": 1, "timestamp": ts}), &resp);
                        self.push_block(vec![one], 0, false);
                    }
                } else {
                    self.anomalies.push(format!("mine at a boundary failed: {:?}", resp));
                }
            }
            Op::Deploy { from, prog, len, blk, b64 } => {
                let contracts = self.env_contracts();
                let env = Env { contracts: &contracts, controller: controller() };
                let code = evm::build_init(prog, &env);
                let mut p = serde_json::Map::new();
                p.insert("from_pkscript".into(), json!(PKSCRIPTS[*from as usize % PKSCRIPTS.len()]));
                Self::data_params(&mut p, &code, *b64, "data", "base64_data");
                p.insert("inscription_byte_len".into(), json!(len.bytes()));
                let txid = self.txid_param();
                p.insert("op_return_tx_id".into(), json!(txid));
                let insc = self.fresh_insc();
                self.pending_prog = Some(prog.clone());
                self.tx_request("brc20_deploy", p, blk, insc, true);
                self.pending_prog = None;
            }
            Op::Call { from, target, by_insc, sel, arg, len, blk, b64 } => {
                let data = evm::calldata(*sel, evm::const_val(*arg));
                self.call_op(*from, *target, *by_insc, &data, len, blk, *b64, false);
            }
            Op::RawCall { from, target, data, len, blk } => {
                self.call_op(*from, *target, false, data, len, blk, false, true);
            }
            Op::Transact { signer: s, nonce, payload, len, blk, b64, txid: _ } => {
                let acct = self.account_nonce(signer_addr(*s));
                let n = match nonce {
                    NonceSel::Next => acct,
                    NonceSel::Offset(k) => (acct as i64 + *k as i64).max(0) as u64,
                };
                let (to, data, is_create) = self.build_payload(payload);
                let raw = sign_legacy(*s, Some(crate::driver::chain_id()), n, to, data);
                let mut p = serde_json::Map::new();
                Self::data_params(&mut p, &raw, *b64, "raw_tx_data", "base64_raw_tx_data");
                p.insert("inscription_byte_len".into(), json!(len.bytes()));
                let txid = self.txid_param();
                p.insert("op_return_tx_id".into(), json!(txid));
                let insc = self.fresh_insc();
                self.signed_insc.insert(b256_hex(keccak256(&raw)), insc.clone());
                self.pending_prog = if let Payload::Create(pr) = payload { Some(pr.clone()) } else { None };
                self.tx_request("brc20_transact", p, blk, insc, is_create);
                self.pending_prog = None;
            }
            Op::Deposit { to, tick, amt, blk } => {
                let mut p = serde_json::Map::new();
                p.insert("to_pkscript".into(), json!(PKSCRIPTS[*to as usize % PKSCRIPTS.len()]));
                p.insert("ticker".into(), json!(TICKERS[*tick as usize % TICKERS.len()]));
                p.insert("amount".into(), json!(format!("0x{:x}", amount(*amt))));
                let insc = self.fresh_insc();
                self.tx_request("brc20_deposit", p, blk, insc, false);
            }
            Op::Withdraw { from, tick, amt, blk } => {
                let mut p = serde_json::Map::new();
                p.insert("from_pkscript".into(), json!(PKSCRIPTS[*from as usize % PKSCRIPTS.len()]));
                p.insert("ticker".into(), json!(TICKERS[*tick as usize % TICKERS.len()]));
                p.insert("amount".into(), json!(format!("0x{:x}", amount(*amt))));
                let insc = self.fresh_insc();
                self.tx_request("brc20_withdraw", p, blk, insc, false);
            }
            Op::Finalise { blk } => {
                if self.model.blocks.is_empty() && self.open.is_none() {
                    // finalising the very first block by hand is fine too
                }
                self.finalise_open(blk);
            }
            Op::Commit => {
                self.to_boundary();
                let r = self.send("brc20_commitToDatabase", json!([]));
                if r.is_ok() {
                    self.model.committed = self.model.blocks.len();
                    self.stats.commits += 1;
                } else {
                    self.anomalies.push(format!("commit at a boundary failed: {:?}", r));
                }
            }
            Op::Clear => {
                if self.open.is_some() {
                    self.stats.clears_midblock += 1;
                }
                let r = self.send("brc20_clearCaches", json!([]));
                if r.is_ok() {
                    self.open = None;
                    self.model.drop_uncommitted();
                    self.stats.clears += 1;
                } else {
                    self.anomalies.push(format!("clearCaches failed: {:?}", r));
                }
            }
            Op::Reopen => {
                self.events.push(Event { op_idx: idx, req: Req::new("<reopen>", Value::Null), resp: Resp::Ok(Value::Null) });
                if let Err(e) = self.inst.reopen() {
                    self.anomalies.push(format!("reopen failed: {}", e));
                    return;
                }
                self.open = None;
                self.model.drop_uncommitted();
                self.stats.reopens += 1;
            }
            Op::Reorg { depth, keep_soft: _ } => {
                // only C01 issues a reorg over a block that merely holds parked transactions (its own
                // handling); everywhere else the block is finalised first, as for commit and mine
                self.to_boundary();
                let Some(h) = self.model.height() else { return };
                let n = h.saturating_sub(*depth as u64);
                self.reorg_to(n);
            }
        }
    }

    /// issue brc20_reorg(n) at a boundary and update the model from the answer
    pub fn reorg_to(&mut self, n: u64) -> Resp {
        let h = self.model.height().unwrap_or(0);
        let r = self.send("brc20_reorg", json!({ "latest_valid_block_number": n }));
        if r.is_ok() {
            if n < h {
                let orphaned_state = self.model.blocks[(n as usize + 1)..].iter().any(|b| b.state_changing);
                if self.model.committed as u64 > n + 1 {
                    self.stats.reorg_after_commit += 1;
                }
                if orphaned_state {
                    self.stats.reorg_orphaned_state += 1;
                }
                self.stats.reorg_accepted += 1;
                self.model.reorg_to(n);
                self.open = None;
            } else {
                self.stats.reorg_noop += 1;
            }
        } else {
            self.stats.reorg_refused += 1;
        }
        r
    }

    fn call_op(&mut self, from: u8, target: u16, by_insc: bool, data: &[u8], len: &Len, blk: &Blk, b64: bool, raw: bool) {
        let mut p = serde_json::Map::new();
        p.insert("from_pkscript".into(), json!(PKSCRIPTS[from as usize % PKSCRIPTS.len()]));
        if by_insc && !self.contract_inscs.is_empty() {
            let i = evm::pick(&(0..self.contract_inscs.len()).collect::<Vec<_>>(), target).unwrap();
            p.insert("contract_inscription_id".into(), json!(self.contract_inscs[i]));
        } else {
            let to = if raw && target >= 0xF000 {
                Address::ZERO // a call to the zero address (1/16 of the raw calls)
            } else {
                evm::pick(&self.contracts, target).unwrap_or_else(|| evm::eoa(3))
            };
            p.insert("contract_address".into(), json!(addr_hex(to)));
        }
        Self::data_params(&mut p, data, b64, "data", "base64_data");
        p.insert("inscription_byte_len".into(), json!(len.bytes()));
        let txid = self.txid_param();
        p.insert("op_return_tx_id".into(), json!(txid));
        let insc = self.fresh_insc();
        self.tx_request("brc20_call", p, blk, insc, false);
    }

    pub fn run(&mut self, ops: &[Op]) {
        for (i, op) in ops.iter().enumerate() {
            self.apply(i, op);
        }
    }
}

/// Feed concrete requests to a fresh instance (the reference of C01/C03/C04).
pub fn replay_requests(inst: &mut Instance, reqs: &[Req]) -> Result<(), String> {
    for r in reqs {
        let resp = inst.call(&r.method, r.params.clone());
        let ok = if r.method == "brc20_initialise" { init_effective(&resp) } else { resp.is_ok() };
        if !ok {
            return Err(format!("replay of {} {} failed: {:?}", r.method, r.params, resp));
        }
        if let Some(expected) = &r.resp {
            let got = crate::observe::canon_resp(&resp);
            if *expected != got {
                return Err(format!(
                    "response to {} {} differs: {}",
                    r.method,
                    crate::observe::short(&r.params),
                    crate::observe::json_diff(expected, &got, "").unwrap_or_default()
                ));
            }
        }
    }
    Ok(())
}
