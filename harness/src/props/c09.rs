//! C09 — no request can crash, hang or wedge the server.
use std::collections::HashMap;

use alloy::primitives::{keccak256, Bytes, B256, U256};
use alloy::sol;
use alloy::sol_types::SolCall;
use brc20_prog::verif as v;
use proptest::prelude::*;
use serde::{Deserialize, Serialize};
use serde_json::{json, Value};

use crate::driver::{raw_on, take_last_panic, Resp};
use crate::engine::*;
use crate::evm::{self, Env, Prog, ProgCfg};
use crate::fail;
use crate::ops::*;
use crate::props::Property;
use crate::rpcgen::{well_typed, Fixture};

pub struct C09;

sol! {
    #![sol(all_derives)]
    function getLockedPkscript(bytes pkscript, uint256 lock_block_count) returns (bytes locked_pkscript);
    function verify(bytes pkscript, bytes message, bytes signature) returns (bool success);
    function getTxDetails(bytes32 txid);
    function getLastSatLocation(bytes32 txid, uint256 vout, uint256 sat);
    function getTxId() returns (bytes32);
}

// ---------------------------------------------------------------------------------------------
// (a) request sequences with ill-typed mutations

#[derive(Clone, Debug, Serialize, Deserialize)]
pub enum Junk {
    Null,
    Bool(bool),
    Int(i64),
    BigUint,
    Float,
    Str(String),
    Array(u8),
    Object,
    HugeStr(u32),
}

#[derive(Clone, Debug, Serialize, Deserialize)]
pub enum Mutation {
    None,
    /// replace the i-th parameter (named or positional)
    Replace(u8, Junk),
    Remove(u8),
    ExtraPositional(Junk),
    /// positional instead of named / wrong arity
    Params(Junk),
}

#[derive(Clone, Debug, Serialize, Deserialize)]
pub struct Request {
    pub method: u16,
    pub mutation: Mutation,
    /// Some(n): this request is brc20_mine(n) (boundary counts get their own weight)
    #[serde(default)]
    pub mine: Option<u8>,
}

#[derive(Clone, Debug, Serialize, Deserialize)]
pub struct SeqCase {
    /// 0 boundary, 1 mid-block, 2 after reorg, 3 empty database
    pub state: u8,
    pub reqs: Vec<Request>,
    pub probe_every: u8,
}

impl Simplify for SeqCase {
    fn simpler(&self) -> Vec<Self> {
        simpler_vec(&self.reqs, 1).into_iter().map(|reqs| SeqCase { state: self.state, reqs, probe_every: self.probe_every }).collect()
    }
}

fn junk() -> impl Strategy<Value = Junk> {
    let strs = prop_oneof![
        Just(String::new()), Just("0x".to_string()), Just("0x0".to_string()), Just("0xzz".to_string()), Just("latest".to_string()), Just("pending".to_string()),
        Just("earliest".to_string()), Just("safe".to_string()), Just("-1".to_string()), Just("18446744073709551616".to_string()), Just("=".to_string()),
        Just("AA".to_string()), Just("AQ==".to_string()), Just("Ag".to_string()), Just("AgAA".to_string()), Just("AP8B".to_string()), Just("/w".to_string()),
        Just("0xf8".to_string()), Just("0xf86c".to_string()), Just("0xc0".to_string()), Just("0x00".to_string()), Just("6a".to_string()), Just("0x6a".to_string()),
        Just(format!("0x{}", "ab".repeat(32))), Just(format!("0x{}", "00".repeat(20))), Just(format!("0x{}", "ff".repeat(33))),
        "[ -~]{0,30}", "\\PC{0,10}", "[A-Za-z0-9+/=]{0,24}", "0x[0-9a-f]{0,70}",
    ];
    prop_oneof![
        2 => Just(Junk::Null), 1 => any::<bool>().prop_map(Junk::Bool),
        3 => prop_oneof![Just(0i64), Just(1), Just(-1), Just(i64::MAX), Just(i64::MIN), Just(255), Just(65536), any::<i64>()].prop_map(Junk::Int),
        1 => Just(Junk::BigUint), 1 => Just(Junk::Float), 6 => strs.prop_map(Junk::Str), 1 => (0u8..4).prop_map(Junk::Array), 1 => Just(Junk::Object),
        1 => prop_oneof![Just(1000u32), Just(70_000), Just(300_000)].prop_map(Junk::HugeStr),
    ]
}

fn junk_value(j: &Junk) -> Value {
    match j {
        Junk::Null => Value::Null,
        Junk::Bool(b) => json!(b),
        Junk::Int(i) => json!(i),
        Junk::BigUint => serde_json::from_str("18446744073709551615").unwrap(),
        Junk::Float => json!(1.5e30),
        Junk::Str(s) => json!(s),
        Junk::Array(n) => Value::Array((0..*n).map(|i| json!(i)).collect()),
        Junk::Object => json!({"a": 1}),
        Junk::HugeStr(n) => json!("A".repeat(*n as usize)),
    }
}

fn mutation() -> impl Strategy<Value = Mutation> {
    prop_oneof![
        3 => Just(Mutation::None),
        10 => (0u8..12, junk()).prop_map(|(i, j)| Mutation::Replace(i, j)),
        2 => (0u8..12).prop_map(Mutation::Remove),
        1 => junk().prop_map(Mutation::ExtraPositional),
        1 => junk().prop_map(Mutation::Params),
    ]
}

fn seq_strategy() -> BoxedStrategy<SeqCase> {
    (0u8..4, proptest::collection::vec(
            prop_oneof![
                16 => (any::<u16>(), mutation()).prop_map(|(method, mutation)| Request { method, mutation, mine: None }),
                1 => prop_oneof![Just(0u8), Just(0), Just(1), Just(2), Just(40)].prop_map(|n| Request { method: 0, mutation: Mutation::None, mine: Some(n) }),
            ],
            4..24,
        ), 1u8..5)
        .prop_map(|(state, reqs, probe_every)| SeqCase { state, reqs, probe_every })
        .boxed()
}

fn mutate(p: Value, m: &Mutation) -> Value {
    match m {
        Mutation::None => p,
        Mutation::Replace(i, j) => match p {
            Value::Object(mut o) => {
                let keys: Vec<String> = o.keys().cloned().collect();
                if !keys.is_empty() {
                    o.insert(keys[*i as usize % keys.len()].clone(), junk_value(j));
                }
                Value::Object(o)
            }
            Value::Array(mut a) => {
                if a.is_empty() {
                    a.push(junk_value(j));
                } else {
                    let k = *i as usize % a.len();
                    // descend into an object parameter (call objects, filters) half of the time
                    if i % 2 == 1 && a[k].is_object() {
                        let o = a[k].as_object_mut().unwrap();
                        let keys: Vec<String> = o.keys().cloned().collect();
                        if !keys.is_empty() {
                            o.insert(keys[(*i as usize / 2) % keys.len()].clone(), junk_value(j));
                        }
                    } else {
                        a[k] = junk_value(j);
                    }
                }
                Value::Array(a)
            }
            o => o,
        },
        Mutation::Remove(i) => match p {
            Value::Object(mut o) => {
                let keys: Vec<String> = o.keys().cloned().collect();
                if !keys.is_empty() {
                    o.remove(&keys[*i as usize % keys.len()]);
                }
                Value::Object(o)
            }
            Value::Array(mut a) => {
                if !a.is_empty() {
                    a.remove(*i as usize % a.len());
                }
                Value::Array(a)
            }
            o => o,
        },
        Mutation::ExtraPositional(j) => match p {
            Value::Array(mut a) => {
                a.push(junk_value(j));
                Value::Array(a)
            }
            Value::Object(mut o) => {
                o.insert("unexpected".into(), junk_value(j));
                Value::Object(o)
            }
            o => o,
        },
        Mutation::Params(j) => junk_value(j),
    }
}

/// run one request on a helper thread so that an unbounded loop is noticed by *work*, not time
fn guarded_call(fx: &mut Fixture, method: &str, params: Value) -> Result<Resp, Failure> {
    let req = json!({"jsonrpc": "2.0", "id": 1, "method": method, "params": params}).to_string();
    let methods = fx.inst.methods();
    let before = fx.inst.call("eth_blockNumber", json!([])).ok().and_then(parse_u64).unwrap_or(0);
    let asked: u64 = if method == "brc20_mine" {
        match &params {
            Value::Array(a) => a.first().and_then(|v| v.as_u64()).unwrap_or(0),
            Value::Object(o) => o.get("block_count").and_then(|v| v.as_u64()).unwrap_or(0),
            _ => 0,
        }
    } else {
        0
    };
    let (tx, rx) = std::sync::mpsc::channel();
    let r2 = req.clone();
    let h = std::thread::Builder::new().stack_size(64 << 20).spawn(move || {
        let _ = tx.send(raw_on(&methods, &r2));
    });
    let deadline = std::time::Instant::now() + std::time::Duration::from_secs(90);
    loop {
        match rx.recv_timeout(std::time::Duration::from_millis(200)) {
            Ok(resp) => {
                let _ = h.map(|h| h.join());
                if method == "brc20_mine" && resp.is_ok() {
                    let after = fx.inst.call("eth_blockNumber", json!([])).ok().and_then(parse_u64).unwrap_or(0);
                    // an empty database gains its genesis block as part of the count
                    if after > before.saturating_add(asked.max(1)) {
                        fail!("C09/mine-exceeded-the-requested-count", "brc20_mine {} at height {} ended at height {}", params, before, after);
                    }
                }
                return Ok(resp);
            }
            Err(_) => {
                if method == "brc20_mine" {
                    let now = fx.inst.methods();
                    let cur = raw_on(&now, r#"{"jsonrpc":"2.0","id":1,"method":"eth_blockNumber","params":[]}"#).ok().and_then(parse_u64).unwrap_or(0);
                    if cur > before.saturating_add(asked).saturating_add(1) {
                        fail!("C09/mine-exceeded-the-requested-count", "brc20_mine {} at height {} is still running at height {}", params, before, cur);
                    }
                }
                if std::time::Instant::now() > deadline {
                    fail!("harness/watchdog", "{} {} did not answer within 90 s", method, crate::observe::short(&params));
                }
            }
        }
    }
}

/// one read and one complete write round
fn liveness(fx: &mut Fixture, after: &str) -> Result<(), Failure> {
    for (m, p) in [("eth_blockNumber", json!([])), ("eth_getStorageAt", json!([fx.ctx.contract, "0x0"])), ("txpool_content", json!([]))] {
        let r = fx.inst.call(m, p);
        if !r.is_ok() {
            fail!("C09/server-wedged:read-probe", "after {}: {} -> {:?}", after, m, r);
        }
    }
    Ok(())
}

fn write_round(fx: &mut Fixture, after: &str) -> Result<(), Failure> {
    let r = fx.inst.call("brc20_clearCaches", json!([]));
    if !r.is_ok() {
        fail!("C09/server-wedged:write-probe", "after {}: brc20_clearCaches -> {:?}", after, r);
    }
    let h0 = fx.inst.call("eth_blockNumber", json!([])).ok().and_then(parse_u64).unwrap_or(0);
    let has_genesis = fx.inst.call("eth_getBlockByNumber", json!(["0", false])).is_ok();
    let r = fx.inst.call("brc20_mine", json!([1, 11]));
    if !r.is_ok() {
        fail!("C09/server-wedged:write-probe", "after {}: brc20_mine(1) -> {:?}", after, r);
    }
    let h1 = fx.inst.call("eth_blockNumber", json!([])).ok().and_then(parse_u64).unwrap_or(0);
    let want = if has_genesis { h0 + 1 } else { 0 };
    if h1 != want {
        fail!("C09/server-wedged:write-probe", "after {}: brc20_mine(1) moved the height from {} to {}", after, h0, h1);
    }
    let r = fx.inst.call("eth_call", json!([{"to": fx.ctx.contract, "data": "0x00"}]));
    if r.is_panic() {
        fail!("C09/server-wedged:write-probe", "after {}: eth_call -> {:?}", after, r);
    }
    Ok(())
}

fn fixture_in_state(state: u8) -> Fixture {
    let mut fx = Fixture::new("c09");
    match state % 4 {
        1 => fx.refresh(true),
        2 => {
            fx.inst.call("brc20_mine", json!([3, 5]));
            fx.inst.call("brc20_reorg", json!([fx.ctx.height]));
            fx.refresh(false);
        }
        3 => {
            // an empty database
            let inst = crate::driver::Instance::fresh("c09e");
            fx.inst = inst;
            fx.ctx.height = 0;
        }
        _ => {}
    }
    fx
}

pub fn check_seq(case: &SeqCase) -> CheckResult {
    let mut info = CaseInfo::default();
    let mut fx = fixture_in_state(case.state);
    let methods: Vec<&'static str> = fx.inst.method_names();
    let mut reached = 0;
    for (i, rq) in case.reqs.iter().enumerate() {
        let m = if rq.mine.is_some() { "brc20_mine" } else { methods[pick_idx(rq.method, methods.len())] };
        // executing reads wait 5 s for an open block by design: issue them at a boundary only
        if crate::rpcgen::executing_read(m) && fx.ctx.open_count > 0 {
            fx.refresh(false);
        }
        fx.ctx.seq += 1;
        let mut p = well_typed(m, &fx.ctx);
        if m == "brc20_mine" {
            p = json!({"block_count": rq.mine.map(|n| n as u64).unwrap_or((rq.method % 41) as u64), "timestamp": 3});
        }
        let mut p = mutate(p, &rq.mutation);
        if m == "brc20_mine" {
            // a long run must never be legitimate: keep the requested count small whatever the mutation did
            let fixn = |v: &mut Value| {
                if v.as_u64().map(|n| n > 40).unwrap_or(false) || v.as_f64().map(|f| f > 40.0).unwrap_or(false) {
                    *v = json!(40);
                }
            };
            match &mut p {
                Value::Object(o) => {
                    if let Some(v) = o.get_mut("block_count") {
                        fixn(v);
                    }
                }
                Value::Array(a) => {
                    if let Some(v) = a.get_mut(0) {
                        fixn(v);
                    }
                }
                _ => {}
            }
        }
        let resp = guarded_call(&mut fx, m, p.clone())?;
        let what = format!("request {} {} {}", i, m, crate::observe::short(&p));
        match &resp {
            Resp::Panic(msg) => {
                if msg.contains("Bitcoin RPC unreachable") {
                    info.class("environment-fault-tolerated");
                } else {
                    fail!(format!("C09/request-panicked:{}", m), "{}: {}", what, msg);
                }
            }
            Resp::Ok(_) => {
                reached += 1;
                // keep the fixture's view of the open block in step with accepted transactions
                if matches!(m, "brc20_deploy" | "brc20_call" | "brc20_deposit" | "brc20_withdraw") {
                    fx.ctx.open_count += 1;
                }
                if m == "brc20_transact" {
                    fx.ctx.open_count += resp.ok().and_then(|v| v.as_array().map(|a| a.len() as u64)).unwrap_or(0);
                }
                if matches!(m, "brc20_finaliseBlock" | "brc20_clearCaches" | "brc20_mine" | "brc20_reorg") {
                    fx.refresh(false);
                }
            }
            Resp::Err { code, .. } => {
                if *code != -32602 && *code != -32600 && *code != -32700 {
                    reached += 1; // decoded and refused by the handler
                }
            }
        }
        liveness(&mut fx, &what)?;
        if (i + 1) % case.probe_every.max(1) as usize == 0 {
            write_round(&mut fx, &what)?;
            fx.refresh(false);
        }
        info.class(&format!("{}:{}", match &rq.mutation {
            Mutation::None => "well-typed",
            Mutation::Replace(..) => "replaced-param",
            Mutation::Remove(..) => "missing-param",
            Mutation::ExtraPositional(..) => "extra-param",
            Mutation::Params(..) => "params-of-wrong-shape",
        }, if resp.is_ok() { "ok" } else { "error" }));
    }
    write_round(&mut fx, "the whole sequence")?;
    info.nontrivial = reached >= 3;
    Ok(info)
}

// ---------------------------------------------------------------------------------------------
// (b) byte strings and generated programs as code / call data, calls into the helper contracts

#[derive(Clone, Debug, Serialize, Deserialize)]
pub enum Helper {
    /// getLockedPkscript(pkscript, count)
    Lock(Vec<u8>, u8),
    /// verify(pkscript, message, signature)
    Bip322(Vec<u8>, Vec<u8>, Vec<u8>),
    TxId,
    /// raw bytes to the helper at 0xfa / 0xfb / 0xfe
    Raw(u8, Vec<u8>),
}

#[derive(Clone, Debug, Serialize, Deserialize)]
pub enum Exec {
    DeployBytes(Vec<u8>),
    DeployProg(Prog),
    CallBytes(Vec<u8>),
    EthCallBytes(Option<Vec<u8>>, Vec<u8>),
    /// as a transaction to the helper, or through eth_call
    Helper(Helper, bool),
    /// eth_callMany into the Bitcoin helpers with a closed set of overrides: (graph, queries)
    BtcHelpers(TxGraph, Vec<(u8, u8, u64, bool)>),
    SignedBytes(Vec<u8>),
}

#[derive(Clone, Debug, Serialize, Deserialize)]
pub struct TxGraph {
    /// per tx: inputs (index of the spent tx or None = null prevout, vout) and outputs (value selector, script)
    pub txs: Vec<(Vec<(Option<u8>, u8)>, Vec<(u8, Vec<u8>)>)>,
}

#[derive(Clone, Debug, Serialize, Deserialize)]
pub struct ExecCase {
    pub execs: Vec<Exec>,
}

impl Simplify for ExecCase {
    fn simpler(&self) -> Vec<Self> {
        simpler_vec(&self.execs, 1).into_iter().map(|execs| ExecCase { execs }).collect()
    }
}

fn pkscript_bytes() -> impl Strategy<Value = Vec<u8>> {
    prop_oneof![
        2 => Just(vec![]), 2 => Just(vec![0x51]), 2 => Just(vec![0x51, 0x20]),
        3 => any::<[u8; 32]>().prop_map(|k| [vec![0x51, 0x20], k.to_vec()].concat()),
        2 => any::<[u8; 20]>().prop_map(|k| [vec![0x00, 0x14], k.to_vec()].concat()),
        3 => proptest::collection::vec(any::<u8>(), 0..80),
        1 => proptest::collection::vec(any::<u8>(), 500..600),
    ]
}

fn helper() -> impl Strategy<Value = Helper> {
    prop_oneof![
        5 => (pkscript_bytes(), prop_oneof![Just(0u8), Just(1), Just(16), Just(17), Just(127), Just(128), Just(255), any::<u8>()]).prop_map(|(p, c)| Helper::Lock(p, c)),
        3 => (pkscript_bytes(), proptest::collection::vec(any::<u8>(), 0..40), proptest::collection::vec(any::<u8>(), 0..120)).prop_map(|(p, m, s)| Helper::Bip322(p, m, s)),
        1 => Just(Helper::TxId),
        4 => (prop_oneof![Just(0xfau8), Just(0xfb), Just(0xfe)], proptest::collection::vec(any::<u8>(), 0..200)).prop_map(|(a, d)| Helper::Raw(a, d)),
    ]
}

fn graph() -> impl Strategy<Value = TxGraph> {
    let input = (proptest::option::weighted(0.9, 0u8..6), 0u8..4);
    let output = (0u8..6, proptest::collection::vec(any::<u8>(), 0..40));
    proptest::collection::vec((proptest::collection::vec(input, 0..4), proptest::collection::vec(output, 0..4)), 1..6).prop_map(|txs| TxGraph { txs })
}

fn exec() -> impl Strategy<Value = Exec> {
    prop_oneof![
        4 => proptest::collection::vec(any::<u8>(), 0..120).prop_map(Exec::DeployBytes),
        3 => evm::prog_strategy(ProgCfg::any()).prop_map(Exec::DeployProg),
        4 => proptest::collection::vec(any::<u8>(), 0..80).prop_map(Exec::CallBytes),
        3 => (proptest::option::of(proptest::collection::vec(any::<u8>(), 0..80)), proptest::collection::vec(any::<u8>(), 0..80)).prop_map(|(c, d)| Exec::EthCallBytes(c, d)),
        8 => (helper(), any::<bool>()).prop_map(|(h, t)| Exec::Helper(h, t)),
        5 => (graph(), proptest::collection::vec((0u8..6, 0u8..5, prop_oneof![Just(0u64), Just(1), Just(u64::MAX), any::<u64>()], any::<bool>()), 1..5)).prop_map(|(g, q)| Exec::BtcHelpers(g, q)),
        2 => proptest::collection::vec(any::<u8>(), 0..120).prop_map(Exec::SignedBytes),
    ]
}

fn exec_strategy() -> BoxedStrategy<ExecCase> {
    proptest::collection::vec(exec(), 3..16).prop_map(|execs| ExecCase { execs }).boxed()
}

fn helper_call(h: &Helper) -> (u8, Vec<u8>) {
    match h {
        Helper::Lock(p, c) => (0xfb, getLockedPkscriptCall { pkscript: Bytes::from(p.clone()), lock_block_count: U256::from(*c) }.abi_encode()),
        Helper::Bip322(p, m, s) => (0xfe, verifyCall { pkscript: Bytes::from(p.clone()), message: Bytes::from(m.clone()), signature: Bytes::from(s.clone()) }.abi_encode()),
        Helper::TxId => (0xfa, getTxIdCall {}.abi_encode()),
        Helper::Raw(a, d) => (*a, d.clone()),
    }
}

fn value_of(sel: u8) -> u64 {
    match sel % 6 {
        0 => 0,
        1 => 1,
        2 => 546,
        3 => u64::MAX,
        4 => u64::MAX / 2 + 1,
        _ => 21_000_000 * 100_000_000,
    }
}

fn graph_key(i: usize) -> B256 {
    keccak256(format!("c09-btctx-{}", i))
}

/// serialise the graph as raw (non-witness) Bitcoin transactions keyed by harness-chosen ids; every
/// referenced previous transaction is part of the set (closed), so no node is ever contacted
pub fn graph_overrides(g: &TxGraph) -> HashMap<B256, Vec<u8>> {
    let n = g.txs.len();
    let mut out = HashMap::new();
    for (i, (ins, outs)) in g.txs.iter().enumerate() {
        let mut b = vec![];
        b.extend_from_slice(&2u32.to_le_bytes());
        b.push(ins.len() as u8);
        for (src, vout) in ins {
            match src {
                Some(s) => {
                    let mut k = graph_key(*s as usize % n).0;
                    k.reverse();
                    b.extend_from_slice(&k);
                    b.extend_from_slice(&(*vout as u32).to_le_bytes());
                }
                None => {
                    b.extend_from_slice(&[0u8; 32]);
                    b.extend_from_slice(&u32::MAX.to_le_bytes());
                }
            }
            b.push(0); // empty scriptSig
            b.extend_from_slice(&u32::MAX.to_le_bytes());
        }
        b.push(outs.len() as u8);
        for (v, script) in outs {
            b.extend_from_slice(&value_of(*v).to_le_bytes());
            b.push(script.len() as u8);
            b.extend_from_slice(script);
        }
        b.extend_from_slice(&0u32.to_le_bytes());
        out.insert(graph_key(i), b);
    }
    out
}

pub fn check_exec(case: &ExecCase) -> CheckResult {
    let mut info = CaseInfo::default();
    let mut fx = Fixture::new("c09x");
    let mut executed = 0;
    for (i, e) in case.execs.iter().enumerate() {
        fx.refresh(false);
        fx.ctx.seq += 1;
        let base = |fx: &Fixture| {
            let mut p = serde_json::Map::new();
            p.insert("timestamp".into(), json!(fx.ctx.open_ts));
            p.insert("hash".into(), json!(fx.ctx.open_hash));
            p.insert("tx_idx".into(), json!(0));
            p.insert("inscription_id".into(), json!(format!("{}i0", hex::encode(keccak256(format!("c09x{}", fx.ctx.seq))))));
            p.insert("inscription_byte_len".into(), json!(2500));
            p.insert("op_return_tx_id".into(), json!(b256_hex(keccak256(b"c09"))));
            p.insert("from_pkscript".into(), json!(PKSCRIPTS[1]));
            p
        };
        let hexs = |b: &[u8]| format!("0x{}", hex::encode(b));
        let (method, params): (&str, Value) = match e {
            Exec::DeployBytes(b) => {
                let mut p = base(&fx);
                p.insert("data".into(), json!(hexs(b)));
                ("brc20_deploy", Value::Object(p))
            }
            Exec::DeployProg(pr) => {
                let code = evm::build_init(pr, &Env { contracts: &[fx.ctx.contract.parse().unwrap_or_default()], controller: controller() });
                let mut p = base(&fx);
                p.insert("data".into(), json!(hexs(&code)));
                ("brc20_deploy", Value::Object(p))
            }
            Exec::CallBytes(b) => {
                let mut p = base(&fx);
                p.insert("contract_address".into(), json!(fx.ctx.contract));
                p.insert("data".into(), json!(hexs(b)));
                ("brc20_call", Value::Object(p))
            }
            Exec::EthCallBytes(code, data) => match code {
                Some(c) => ("eth_call", json!([{"from": addr_hex(pk_addr(1)), "data": hexs(c)}])),
                None => ("eth_call", json!([{"from": addr_hex(pk_addr(1)), "to": fx.ctx.contract, "data": hexs(data)}])),
            },
            Exec::Helper(h, as_tx) => {
                let (a, d) = helper_call(h);
                let to = format!("0x{}{:02x}", "00".repeat(19), a);
                if *as_tx {
                    let mut p = base(&fx);
                    p.insert("contract_address".into(), json!(to));
                    p.insert("data".into(), json!(hexs(&d)));
                    ("brc20_call", Value::Object(p))
                } else {
                    ("eth_call", json!([{"from": addr_hex(pk_addr(1)), "to": to, "data": hexs(&d)}]))
                }
            }
            Exec::BtcHelpers(g, queries) => {
                let ov = graph_overrides(g);
                let n = g.txs.len();
                let calls: Vec<Value> = queries
                    .iter()
                    .map(|(t, vout, sat, details)| {
                        let key = graph_key(*t as usize % n);
                        if *details {
                            json!({"to": format!("0x{}fd", "00".repeat(19)), "data": hexs(&getTxDetailsCall { txid: key }.abi_encode())})
                        } else {
                            json!({"to": format!("0x{}fc", "00".repeat(19)), "data": hexs(&getLastSatLocationCall { txid: key, vout: U256::from(*vout), sat: U256::from(*sat) }.abi_encode())})
                        }
                    })
                    .collect();
                let hexes: serde_json::Map<String, Value> = ov.iter().map(|(k, v)| (b256_hex(*k), json!(hexs(v)))).collect();
                let ids: Vec<String> = calls.iter().map(|_| b256_hex(B256::ZERO)).collect();
                ("eth_callMany", json!([calls, Value::Null, {"opReturnTxIds": ids, "bitcoinTxHexes": hexes}]))
            }
            Exec::SignedBytes(b) => {
                let n = fx.inst.call("eth_getTransactionCount", json!([addr_hex(signer_addr(2)), "latest"])).ok().and_then(parse_u64).unwrap_or(0);
                let raw = sign_legacy(2, Some(crate::driver::chain_id()), n, alloy::primitives::TxKind::Create, b.clone());
                let mut p = base(&fx);
                p.remove("from_pkscript");
                p.insert("raw_tx_data".into(), json!(hexs(&raw)));
                ("brc20_transact", Value::Object(p))
            }
        };
        let resp = guarded_call(&mut fx, method, params.clone())?;
        let what = format!("exec {} {:?}", i, e);
        if let Resp::Panic(m) = &resp {
            if m.contains("Bitcoin RPC unreachable") {
                fail!("harness/closed-override-set-was-not-closed", "{}: {}", crate::observe::short(&json!(what)), m);
            }
            fail!(format!("C09/execution-panicked:{}", method), "{}: {}", crate::observe::short(&json!(what)), m);
        }
        executed += 1;
        liveness(&mut fx, &what)?;
        write_round(&mut fx, &what)?;
        info.class(match e {
            Exec::DeployBytes(_) => "random-init-code",
            Exec::DeployProg(_) => "generated-program",
            Exec::CallBytes(_) => "random-calldata",
            Exec::EthCallBytes(..) => "eth_call-random-bytes",
            Exec::Helper(Helper::Lock(..), _) => "helper-lock-script",
            Exec::Helper(Helper::Bip322(..), _) => "helper-bip322",
            Exec::Helper(Helper::TxId, _) => "helper-txid",
            Exec::Helper(Helper::Raw(..), _) => "helper-raw-bytes",
            Exec::BtcHelpers(..) => "bitcoin-helpers-with-closed-overrides",
            Exec::SignedBytes(_) => "signed-tx-random-init-code",
        });
    }
    info.nontrivial = executed >= 3;
    Ok(info)
}

// ---------------------------------------------------------------------------------------------
// (c) direct calls of the decoders and precompile functions

#[derive(Clone, Debug, Serialize, Deserialize)]
pub enum Direct {
    Helper(Helper, u64),
    Btc(TxGraph, u8, u8, u64, bool, u64),
    Payload(String),
    SelectBytes(Option<String>, Option<String>),
    Pkscript(String),
}

impl Simplify for Direct {}

fn direct_strategy() -> BoxedStrategy<Direct> {
    let gas = prop_oneof![Just(0u64), Just(39), Just(40), Just(19_999), Just(20_000), Just(399_999), Just(400_000), Just(800_000), Just(u64::MAX), any::<u64>()];
    prop_oneof![
        8 => (helper(), gas.clone()).prop_map(|(h, g)| Direct::Helper(h, g)),
        5 => (graph(), 0u8..6, 0u8..5, prop_oneof![Just(0u64), Just(1), Just(u64::MAX), any::<u64>()], any::<bool>(), gas).prop_map(|(g, t, v, s, d, gas)| Direct::Btc(g, t, v, s, d, gas)),
        6 => prop_oneof!["[A-Za-z0-9+/=]{0,60}", "\\PC{0,20}", Just(String::new()), Just("=".to_string())].prop_map(Direct::Payload),
        2 => (proptest::option::of("(0x)?[0-9a-fA-Fg]{0,40}"), proptest::option::of("[A-Za-z0-9+/=]{0,40}")).prop_map(|(a, b)| Direct::SelectBytes(a, b)),
        2 => "(0x)?[0-9a-fA-Fg ]{0,80}".prop_map(Direct::Pkscript),
    ]
    .boxed()
}

pub fn check_direct(case: &Direct) -> CheckResult {
    let mut info = CaseInfo::default();
    let r = std::panic::catch_unwind(|| -> Result<&'static str, Failure> {
        match case {
            Direct::Helper(h, gas) => {
                let (a, d) = helper_call(h);
                let call = v::PrecompileCall { bytes: Bytes::from(d), gas_limit: *gas, block_height: U256::from(5u64), current_op_return_tx_id: keccak256(b"t"), btc_tx_hexes_data: HashMap::new() };
                let res = match a {
                    0xfa => v::get_op_return_tx_id_precompile(&call),
                    0xfb => v::get_locked_pkscript_precompile(&call),
                    _ => v::bip322_verify_precompile(&call),
                };
                if res.gas.spent() > *gas {
                    return Err(Failure::new("C09/helper-spent-more-gas-than-given", format!("{:?}: spent {} of {}", h, res.gas.spent(), gas)));
                }
                Ok("helper")
            }
            Direct::Btc(g, t, vout, sat, details, gas) => {
                let ov: HashMap<B256, Bytes> = graph_overrides(g).into_iter().map(|(k, v)| (k, Bytes::from(v))).collect();
                let key = graph_key(*t as usize % g.txs.len());
                let bytes = if *details { getTxDetailsCall { txid: key }.abi_encode() } else { getLastSatLocationCall { txid: key, vout: U256::from(*vout), sat: U256::from(*sat) }.abi_encode() };
                let call = v::PrecompileCall { bytes: Bytes::from(bytes), gas_limit: *gas, block_height: U256::from(5u64), current_op_return_tx_id: B256::ZERO, btc_tx_hexes_data: ov };
                let res = if *details { v::btc_tx_details_precompile(&call) } else { v::last_sat_location_precompile(&call) };
                if res.gas.spent() > *gas {
                    return Err(Failure::new("C09/helper-spent-more-gas-than-given", format!("spent {} of {}", res.gas.spent(), gas)));
                }
                Ok("bitcoin-helper")
            }
            Direct::Payload(s) => {
                let _ = v::decode_bytes_from_inscription_data(s);
                Ok("payload-decoder")
            }
            Direct::SelectBytes(a, b) => {
                let _ = v::select_bytes(&a.clone().map(brc20_prog::types::RawBytes::new), &b.clone().map(brc20_prog::types::Base64Bytes::new));
                Ok("select_bytes")
            }
            Direct::Pkscript(s) => {
                let _ = v::get_evm_address_from_pkscript(s);
                Ok("pkscript-address")
            }
        }
    });
    match r {
        Ok(Ok(c)) => info.class(c),
        Ok(Err(f)) => return Err(f),
        Err(_) => {
            let m = take_last_panic().unwrap_or_default();
            if m.contains("Bitcoin RPC unreachable") {
                fail!("harness/closed-override-set-was-not-closed", "{:?}: {}", case, m);
            }
            fail!("C09/function-panicked", "{:?}: {}", case, m);
        }
    }
    info.nontrivial = true;
    Ok(info)
}

impl Property for C09 {
    fn id(&self) -> &'static str {
        "C09"
    }
    fn run(&self, ctx: &Ctx, ev: &mut Evidence) -> Vec<Found> {
        ev.assumptions.push("loss of the Bitcoin node is an environment fault: the Bitcoin helper contracts are only exercised with closed override sets (every referenced transaction supplied); a 'Bitcoin RPC unreachable' panic is tolerated in the request part and counted; brc20_mine counts are at most 40".into());
        let seq = PartCfg {
            name: "requests",
            rule: "sequences of 4-23 requests against an instance in one of 4 states (boundary, mid-block, after a reorg, empty database): any registered method with well-typed parameters, mutated by replacing / removing / adding a parameter or the whole parameter value with junk (wrong JSON types, boundary integers, empty/odd/huge strings, tags, truncated hex/base64/RLP); no request may panic; after every request three reads must answer, after every k-th request and at the end a full write round (clearCaches, mine(1) moving the height by exactly one, eth_call) must succeed; brc20_mine(n) is watched from a second thread and must not pass height+n. Non-trivial = >= 3 requests reached a handler",
            cases: ctx.tier.pick(1500, 24_000),
            max_shrink_iters: ctx.tier.pick(300, 1500),
        };
        let mut found = explore(ctx, ev, &seq, seq_strategy, check_seq);
        let ex = PartCfg {
            name: "execution",
            rule: "3-15 executions per case: random bytes and generated programs as init code (inscription and signed), random call data, eth_call with random code, ABI-valid and ABI-invalid calls into the txid / lock-script / BIP-322 helpers (as transactions and simulations), and eth_callMany into the Bitcoin-transaction helpers with generated closed override graphs (null prevouts, out-of-range outputs, u64::MAX values); liveness probe (reads + write round) after each. Non-trivial = >= 3 executions",
            cases: ctx.tier.pick(1200, 16_000),
            max_shrink_iters: ctx.tier.pick(300, 1500),
        };
        found.extend(explore(ctx, ev, &ex, exec_strategy, check_exec));
        let di = PartCfg {
            name: "direct",
            rule: "direct calls of the payload decoder, select_bytes, pkscript parsing and the five helper functions with generated inputs and gas limits around each charge (39/40, 19999/20000, 399999/400000): no panic, gas spent <= gas given. Every case is non-trivial",
            cases: ctx.tier.pick(60_000, 2_000_000),
            max_shrink_iters: 3000,
        };
        found.extend(explore(ctx, ev, &di, direct_strategy, check_direct));
        found
    }
    fn replay(&self, part: &str, case: &Value) -> CheckResult {
        match part {
            "execution" => check_exec(&decode_case::<ExecCase>(case)?),
            "direct" => check_direct(&decode_case::<Direct>(case)?),
            _ => check_seq(&decode_case::<SeqCase>(case)?),
        }
    }
}
