//! C10 — read-only methods never change state.
use alloy::primitives::keccak256;
use brc20_prog::verif::{BlockResponseED, Decode, Encode};
use proptest::prelude::*;
use serde::{Deserialize, Serialize};
use serde_json::{json, Value};

use crate::driver::Resp;
use crate::engine::*;
use crate::evm::{self, Act, Env, Prog, ProgCfg};
use crate::fail;
use crate::observe::{canon_resp, observe};
use crate::ops::*;
use crate::props::c01::differs;
use crate::props::Property;

pub struct C10;

#[derive(Clone, Debug, Serialize, Deserialize)]
pub enum CallSpec {
    /// call a known contract: (index, selector, arg)
    Contract(u16, u8, u8),
    /// simulate a creation
    Create(Prog),
    /// raw bytes to a known contract / as init code
    Raw(Option<u16>, Vec<u8>),
}

#[derive(Clone, Debug, Serialize, Deserialize)]
pub enum Read {
    Call(u8, CallSpec),
    CallMany(Vec<(u8, CallSpec)>, bool),
    Estimate(u8, CallSpec),
    EstimateMany(Vec<(u8, CallSpec)>, bool),
    Balance(u8, u8),
    /// the whole non-executing query surface
    Queries,
}

#[derive(Clone, Debug, Serialize, Deserialize)]
pub struct Case {
    pub ops: Vec<Op>,
    pub reads: Vec<(u16, Read)>,
}

impl Simplify for Case {
    fn simpler(&self) -> Vec<Self> {
        let mut v = vec![];
        for i in (0..self.reads.len()).rev() {
            if self.reads.len() > 1 {
                let mut r = self.reads.clone();
                r.remove(i);
                v.push(Case { ops: self.ops.clone(), reads: r });
            }
        }
        v.extend(simpler_vec(&self.ops, 1).into_iter().map(|ops| Case { ops, reads: self.reads.clone() }));
        v
    }
}

fn spec() -> impl Strategy<Value = CallSpec> {
    prop_oneof![
        8 => (any::<u16>(), 0u8..5, 0u8..6).prop_map(|(t, s, a)| CallSpec::Contract(t, s, a)),
        3 => evm::prog_strategy(ProgCfg::any()).prop_map(CallSpec::Create),
        1 => (proptest::option::of(any::<u16>()), proptest::collection::vec(any::<u8>(), 0..40)).prop_map(|(t, d)| CallSpec::Raw(t, d)),
    ]
}

fn read() -> impl Strategy<Value = Read> {
    prop_oneof![
        6 => (0u8..8, spec()).prop_map(|(f, s)| Read::Call(f, s)),
        5 => (proptest::collection::vec((0u8..8, spec()), 1..5), any::<bool>()).prop_map(|(c, o)| Read::CallMany(c, o)),
        2 => (0u8..8, spec()).prop_map(|(f, s)| Read::Estimate(f, s)),
        1 => (proptest::collection::vec((0u8..6, spec()), 1..3), any::<bool>()).prop_map(|(c, o)| Read::EstimateMany(c, o)),
        2 => (0u8..5, 0u8..4).prop_map(|(p, t)| Read::Balance(p, t)),
        3 => Just(Read::Queries),
    ]
}

fn strategy() -> BoxedStrategy<Case> {
    let mut c = HistCfg::general();
    c.max_ops = 36;
    c.w_reorg = 2;
    c.w_clear = 1;
    c.w_reopen = 1;
    (history_strategy(c), proptest::collection::vec((any::<u16>(), read()), 2..14)).prop_map(|(ops, reads)| Case { ops, reads }).boxed()
}

fn from_addr(i: u8) -> String {
    match i {
        0..=3 => addr_hex(pk_addr(i)),
        4 => addr_hex(signer_addr(0)),
        _ => addr_hex(indexer_addr()),
    }
}

/// senders 6 and 7 are accounts *with code* (a known contract, the controller): such a caller is
/// refused before execution, which is its own path through the simulation code
fn from_addr_in(r: &Runner, i: u8) -> String {
    match i {
        6 => r.contracts.first().map(|a| addr_hex(*a)).unwrap_or_else(|| addr_hex(controller())),
        7 => addr_hex(controller()),
        _ => from_addr(i),
    }
}

/// (call object, would-mutate-if-committed)
fn call_obj(r: &Runner, from: u8, s: &CallSpec) -> (Value, bool) {
    let contracts = r.env_contracts();
    let env = Env { contracts: &contracts, controller: controller() };
    let mutating = |acts: &[Act]| acts.iter().any(|a| matches!(a, Act::SStore { .. } | Act::Log { .. } | Act::Create { .. } | Act::SelfDestruct { .. }));
    match s {
        CallSpec::Contract(t, sel, arg) => {
            if contracts.is_empty() {
                return (json!({"from": from_addr(from), "to": addr_hex(evm::eoa(1)), "data": "0x00"}), false);
            }
            let idx = (*t as usize * contracts.len()) >> 16;
            let m = r.contract_progs.get(idx).and_then(|p| p.as_ref()).map(|p| p.blocks.get(*sel as usize).map(|b| mutating(b)).unwrap_or(false)).unwrap_or(false);
            (json!({"from": from_addr_in(r, from), "to": addr_hex(contracts[idx]), "data": format!("0x{}", hex::encode(evm::calldata(*sel, evm::const_val(*arg))))}), m)
        }
        CallSpec::Create(p) => (json!({"from": from_addr_in(r, from), "data": format!("0x{}", hex::encode(evm::build_init(p, &env)))}), true),
        CallSpec::Raw(t, d) => match t.and_then(|t| evm::pick(&contracts, t)) {
            Some(a) => (json!({"from": from_addr(from), "to": addr_hex(a), "input": format!("0x{}", hex::encode(d))}), false),
            None => (json!({"from": from_addr(from), "data": format!("0x{}", hex::encode(d))}), false),
        },
    }
}

fn overrides(n: usize) -> Value {
    // a closed set of overrides: a txid per call and one (undecodable) raw transaction
    let ids: Vec<String> = (0..n).map(|i| b256_hex(keccak256(format!("ov{}", i)))).collect();
    json!({"opReturnTxIds": ids, "bitcoinTxHexes": {b256_hex(keccak256(b"ovtx")): "0x0100"}})
}

/// all key/value pairs of every store of a closed instance, processing time masked
pub fn dump(dir: &std::path::Path) -> Result<Vec<(String, Vec<u8>, Vec<u8>)>, Failure> {
    let mut out = vec![];
    let mut names: Vec<String> = std::fs::read_dir(dir).map_err(|e| Failure::new("harness/dump", e.to_string()))?.flatten().map(|e| e.file_name().to_string_lossy().to_string()).collect();
    names.sort();
    for n in names {
        let opts = rocksdb::Options::default();
        let db = rocksdb::DB::open_for_read_only(&opts, dir.join(&n), false).map_err(|e| Failure::new("harness/dump", format!("{}: {}", n, e)))?;
        for kv in db.iterator(rocksdb::IteratorMode::Start) {
            let (k, v) = kv.map_err(|e| Failure::new("harness/dump", e.to_string()))?;
            let mut v = v.to_vec();
            if n == "block_number_to_block" {
                if let Ok(mut b) = BlockResponseED::decode_vec(&v) {
                    b.mine_timestamp = 0u64.into();
                    v = b.encode_vec();
                }
            }
            out.push((n.clone(), k.to_vec(), v));
        }
    }
    Ok(out)
}

pub fn check(case: &Case) -> CheckResult {
    let mut info = CaseInfo::default();
    let mut a = Runner::new("c10a");
    let mut b = Runner::new("c10b");
    let n = case.ops.len().max(1);
    let mut mutating_reads = 0;
    for (i, op) in case.ops.iter().enumerate() {
        for (pos, rd) in &case.reads {
            if pick_idx(*pos, n) != i {
                continue;
            }
            let executing = !matches!(rd, Read::Queries);
            if executing && !a.at_boundary() {
                // executing reads wait for the block to be finalised (by design): only queries mid-block
                let _ = observe(&mut a.inst, &a.uni);
                info.class("queries-mid-block");
                continue;
            }
            let before = observe(&mut a.inst, &a.uni);
            let (resp, would_mutate): (Resp, bool) = match rd {
                Read::Call(f, s) => {
                    let (o, m) = call_obj(&a, *f, s);
                    (a.inst.call("eth_call", json!([o])), m)
                }
                Read::CallMany(cs, ov) => {
                    let objs: Vec<(Value, bool)> = cs.iter().map(|(f, s)| call_obj(&a, *f, s)).collect();
                    let m = objs.iter().any(|x| x.1);
                    let calls: Vec<Value> = objs.into_iter().map(|x| x.0).collect();
                    let p = if *ov { json!([calls, Value::Null, overrides(cs.len())]) } else { json!([calls]) };
                    (a.inst.call("eth_callMany", p), m)
                }
                Read::Estimate(f, s) => {
                    let (o, m) = call_obj(&a, *f, s);
                    (a.inst.call("eth_estimateGas", json!([o])), m)
                }
                Read::EstimateMany(cs, ov) => {
                    let objs: Vec<(Value, bool)> = cs.iter().map(|(f, s)| call_obj(&a, *f, s)).collect();
                    let m = objs.iter().any(|x| x.1);
                    let calls: Vec<Value> = objs.into_iter().map(|x| x.0).collect();
                    let p = if *ov { json!([calls, Value::Null, overrides(cs.len())]) } else { json!([calls]) };
                    (a.inst.call("eth_estimateGasMany", p), m)
                }
                Read::Balance(p, t) => (a.inst.call("brc20_balance", json!([PKSCRIPTS[*p as usize % 5], TICKERS[*t as usize % 4]])), false),
                Read::Queries => (Resp::Ok(Value::Null), false),
            };
            if let Resp::Panic(m) = &resp {
                fail!("C10/read-panicked", "before op {}: {:?}: {}", i, rd, m);
            }
            let after = observe(&mut a.inst, &a.uni);
            let name = format!("{:?}", rd).split('(').next().unwrap_or("").to_string();
            differs(&before, &after, &format!("C10/read-changed-state:{}", name), &format!("before op {}: {:?} -> {}", i, rd, crate::observe::short(&resp.to_json())))?;
            if resp.is_ok() && would_mutate {
                mutating_reads += 1;
            }
            info.class(&format!("read:{}{}", name, if resp.is_ok() { "" } else { "(failed)" }));
        }
        let (fa, fb) = (a.events.len(), b.events.len());
        a.apply(i, op);
        b.apply(i, op);
        let (ea, eb) = (&a.events[fa..], &b.events[fb..]);
        if ea.len() != eb.len() {
            fail!("C10/history-diverged-after-reads", "op {}", i);
        }
        for (x, y) in ea.iter().zip(eb.iter()) {
            let (rx, ry) = (canon_resp(&x.resp), canon_resp(&y.resp));
            if x.req != y.req || rx != ry {
                fail!(format!("C10/indexer-response-differs-after-reads:{}", x.req.method), "op {}: {}", i, crate::observe::json_diff(&rx, &ry, "").unwrap_or_default());
            }
        }
    }
    a.to_boundary();
    b.to_boundary();
    let (oa, ob) = (observe(&mut a.inst, &a.uni), observe(&mut b.inst, &a.uni));
    differs(&oa, &ob, "C10/final-state-differs-from-read-free-run", "at the end")?;
    // same database contents after commit
    for r in [&mut a, &mut b] {
        let c = r.inst.call("brc20_commitToDatabase", json!([]));
        if !c.is_ok() {
            fail!("C10/commit-failed", "{:?}", c);
        }
        r.inst.close();
    }
    let (da, db) = (dump(&a.inst.dir)?, dump(&b.inst.dir)?);
    if da != db {
        let d = da.iter().zip(db.iter()).find(|(x, y)| x != y).map(|(x, y)| format!("store {} key {}: {} vs {}", x.0, hex::encode(&x.1), hex::encode(&x.2[..x.2.len().min(80)]), hex::encode(&y.2[..y.2.len().min(80)]))).unwrap_or_else(|| format!("{} vs {} rows", da.len(), db.len()));
        fail!("C10/database-contents-differ-from-read-free-run", "{}", d);
    }
    info.nontrivial = mutating_reads > 0;
    info.class_if(mutating_reads > 0, "simulation-ran-state-mutating-code");
    Ok(info)
}

impl Property for C10 {
    fn id(&self) -> &'static str {
        "C10"
    }
    fn run(&self, ctx: &Ctx, ev: &mut Evidence) -> Vec<Found> {
        ev.assumptions.push("executing reads are placed at block boundaries (mid-block they wait for the block by design and then fail); Bitcoin-transaction overrides are a closed set so that no node is contacted".into());
        let cfg = PartCfg {
            name: "reads",
            rule: "a generated history plus 2-13 generated read requests (eth_call, eth_callMany with 1-4 chained calls and optional overrides, eth_estimateGas(Many), brc20_balance, and the whole query surface also mid-block) inserted at generated positions; observation before == after each read; all indexer responses, the final observation and (after commit and close) the raw contents of all RocksDB stores equal those of the read-free twin. Non-trivial = a successful simulation of code containing SSTORE/LOG/CREATE/SELFDESTRUCT",
            cases: ctx.tier.pick(900, 10_000),
            max_shrink_iters: ctx.tier.pick(250, 1000),
        };
        explore(ctx, ev, &cfg, strategy, check)
    }
    fn replay(&self, _part: &str, case: &Value) -> CheckResult {
        check(&decode_case::<Case>(case)?)
    }
}
