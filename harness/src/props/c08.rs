//! C08 — signed transactions execute once, in nonce order, via a bounded pending pool.
use std::collections::BTreeMap;

use alloy::primitives::{keccak256, TxKind};
use proptest::prelude::*;
use serde::{Deserialize, Serialize};
use serde_json::{json, Value};

use crate::driver::{Instance, Resp};
use crate::engine::*;
use crate::fail;
use crate::ops::*;
use crate::props::Property;

pub struct C08;

const WINDOW_NONCES: u64 = 10;
const WINDOW_BLOCKS: u64 = 10;

#[derive(Clone, Debug, Serialize, Deserialize, PartialEq)]
pub enum NSel {
    Abs(u8),
    /// account nonce + k
    Rel(i8),
}

#[derive(Clone, Debug, Serialize, Deserialize, PartialEq)]
pub enum POp {
    /// signed tx: signer, nonce, variant (different data => different tx for the same nonce), wrong chain id
    Tx(u8, NSel, u8, bool),
    Garbage(Vec<u8>),
    /// an inscription call in between (advances the block's transaction index)
    Insc,
    Finalise,
    Mine(u8),
    Commit,
    Clear,
    Reorg(u8),
    /// park nonces account+1 ..= account+n of a signer (ascending or descending), then optionally the missing one
    ParkRun(u8, u8, bool, bool),
}

#[derive(Clone, Debug, Serialize, Deserialize)]
pub struct Case {
    pub ops: Vec<POp>,
}

impl Simplify for Case {
    fn simpler(&self) -> Vec<Self> {
        simpler_vec(&self.ops, 1).into_iter().map(|ops| Case { ops }).collect()
    }
}

fn pop_strategy() -> impl Strategy<Value = POp> {
    prop_oneof![
        10 => (0u8..3, prop_oneof![5 => Just(NSel::Rel(0)), 6 => (1i8..5).prop_map(NSel::Rel), 2 => (5i8..12).prop_map(NSel::Rel), 1 => (-3i8..0).prop_map(NSel::Rel)], 0u8..3, prop::bool::weighted(0.04))
            .prop_map(|(s, n, v, w)| POp::Tx(s, n, v, w)),
        1 => proptest::collection::vec(any::<u8>(), 0..50).prop_map(POp::Garbage),
        3 => Just(POp::Insc),
        5 => Just(POp::Finalise),
        4 => prop_oneof![3 => 1u8..4, 3 => 7u8..12].prop_map(POp::Mine),
        1 => Just(POp::Commit),
        1 => Just(POp::Clear),
        2 => (0u8..12).prop_map(POp::Reorg),
        2 => (0u8..3, 2u8..12, any::<bool>(), prop::bool::weighted(0.7)).prop_map(|(s, n, asc, trig)| POp::ParkRun(s, n, asc, trig)),
    ]
}

fn strategy() -> BoxedStrategy<Case> {
    proptest::collection::vec(pop_strategy(), 10..70).prop_map(|ops| Case { ops }).boxed()
}

// ---- reference pool model

#[derive(Clone, Debug, PartialEq)]
struct Entry {
    hash: String,
    parked: u64,
}

#[derive(Clone, Debug, Default, PartialEq)]
struct Pool {
    /// signer index -> account nonce
    nonce: BTreeMap<u8, u64>,
    waiting: BTreeMap<(u8, u64), Entry>,
}

impl Pool {
    fn an(&self, s: u8) -> u64 {
        *self.nonce.get(&s).unwrap_or(&0)
    }
    fn expire(&mut self, finalised: u64) {
        self.waiting.retain(|_, e| e.parked + WINDOW_BLOCKS > finalised);
    }
}

struct Sim {
    inst: Instance,
    pool: Pool,
    /// snapshots after finalising block h (index = h)
    snaps: Vec<Pool>,
    committed: usize,
    hef: u64,
    /// block under construction: transaction count (None = no block open)
    open: Option<u64>,
    seq: u64,
    stats: Stat,
}

#[derive(Default)]
struct Stat {
    drains2: u32,
    edge: u32,
    parked: u32,
    executed: u32,
    ignored: u32,
    expired_seen: u32,
    replaced: u32,
    limbo_exec: u32,
    limbo_drop: u32,
}

const TS: u64 = 1000;

impl Sim {
    fn new() -> Result<Sim, Failure> {
        let mut inst = Instance::fresh("c08");
        let r = inst.call("brc20_mine", json!([1, TS]));
        if !r.is_ok() {
            fail!("C08/setup", "{:?}", r);
        }
        Ok(Sim { inst, pool: Pool::default(), snaps: vec![Pool::default()], committed: 0, hef: 0, open: None, seq: 0, stats: Stat::default() })
    }
    fn next_height(&self) -> u64 {
        self.snaps.len() as u64
    }
    fn insc(&mut self) -> String {
        self.seq += 1;
        format!("{}i0", hex::encode(keccak256(format!("c08-{}", self.seq))))
    }
    fn block_fields(&mut self) -> serde_json::Map<String, Value> {
        let count = *self.open.get_or_insert(0);
        let mut p = serde_json::Map::new();
        p.insert("timestamp".into(), json!(TS));
        p.insert("hash".into(), json!(format!("0x{}", "00".repeat(32))));
        p.insert("tx_idx".into(), json!(count));
        p
    }
    fn finalise(&mut self) -> Result<(), Failure> {
        let count = self.open.unwrap_or(0);
        let r = self.inst.call("brc20_finaliseBlock", json!({"timestamp": TS, "hash": format!("0x{}", "00".repeat(32)), "block_tx_count": count}));
        if !r.is_ok() {
            fail!("C08/receipt-count-differs-from-appended", "finalising block {} with the {} transactions counted from returned receipts failed: {:?}", self.next_height(), count, r);
        }
        let h = self.next_height();
        let cnt = self.inst.call("eth_getBlockTransactionCountByNumber", json!([h.to_string()]));
        if cnt.ok().and_then(parse_u64) != Some(count) {
            fail!("C08/receipt-count-differs-from-appended", "block {} holds {:?} transactions, receipts returned: {}", h, cnt, count);
        }
        self.pool.expire(h);
        self.snaps.push(self.pool.clone());
        self.hef = self.hef.max(h);
        self.open = None;
        Ok(())
    }
    fn boundary(&mut self) -> Result<(), Failure> {
        if self.open.is_some() {
            self.finalise()?;
        }
        Ok(())
    }

    /// compare txpool_content / contentFrom / account nonces with the model
    fn compare(&mut self, when: &str) -> Result<(), Failure> {
        let b = self.next_height();
        let r = self.inst.call("txpool_content", json!([]));
        let Some(v) = r.ok().cloned() else { fail!("C08/txpool-query-failed", "{}: {:?}", when, r) };
        let mut listed: BTreeMap<(String, u64), String> = BTreeMap::new();
        if let Some(p) = v["pending"].as_object() {
            for (addr, m) in p {
                for (n, tx) in m.as_object().cloned().unwrap_or_default() {
                    listed.insert((addr.to_lowercase(), n.parse().unwrap_or(u64::MAX)), tx["hash"].as_str().unwrap_or("").to_string());
                    if !tx["blockNumber"].is_null() || !tx["transactionIndex"].is_null() {
                        fail!("C08/pending-tx-shows-a-position", "{}: {}", when, crate::observe::short(&tx));
                    }
                }
            }
        }
        if v["queued"].as_object().map(|q| !q.is_empty()).unwrap_or(true) {
            fail!("C08/txpool-shape", "{}: queued = {}", when, v["queued"]);
        }
        let mut want: BTreeMap<(String, u64), (String, bool)> = BTreeMap::new();
        for ((s, n), e) in &self.pool.waiting {
            // an entry parked in block p is in limbo while block p+10 is under construction
            let limbo = e.parked + WINDOW_BLOCKS <= b;
            want.insert((addr_hex(signer_addr(*s)), *n), (e.hash.clone(), limbo));
        }
        for (k, h) in &listed {
            match want.get(k) {
                Some((wh, _)) if wh == h => {}
                Some((wh, _)) => fail!("C08/txpool-lists-wrong-tx", "{}: {:?} lists {} but {} is waiting", when, k, h, wh),
                None => fail!("C08/txpool-lists-a-tx-that-is-not-waiting", "{}: {:?} {} (model: {:?})", when, k, h, self.pool.waiting),
            }
        }
        for (k, (h, limbo)) in &want {
            if !listed.contains_key(k) && !*limbo {
                fail!("C08/txpool-misses-a-waiting-tx", "{}: {:?} {} is waiting but not listed (listed: {:?})", when, k, h, listed);
            }
        }
        for s in 0..3u8 {
            let a = addr_hex(signer_addr(s));
            let c = self.inst.call("eth_getTransactionCount", json!([a, "latest"]));
            if c.ok().and_then(parse_u64) != Some(self.pool.an(s)) {
                fail!("C08/account-nonce", "{}: signer {} has nonce {:?}, model {}", when, s, c, self.pool.an(s));
            }
            let r = self.inst.call("txpool_contentFrom", json!([a]));
            let from: Vec<u64> = r.ok().and_then(|v| v["pending"][&a].as_object().map(|m| m.keys().filter_map(|k| k.parse().ok()).collect())).unwrap_or_default();
            let mut from = from;
            from.sort();
            let all: Vec<u64> = listed.keys().filter(|(x, _)| *x == a).map(|(_, n)| *n).collect();
            if from != all {
                fail!("C08/txpool-contentFrom-differs-from-content", "{}: signer {}: {:?} vs {:?}", when, s, from, all);
            }
        }
        Ok(())
    }

    fn apply(&mut self, i: usize, op: &POp) -> Result<(), Failure> {
        match op {
            POp::Tx(s, nsel, variant, wrong_chain) => {
                let an = self.pool.an(*s);
                let nonce = match nsel {
                    NSel::Abs(n) => *n as u64,
                    NSel::Rel(k) => (an as i64 + *k as i64).max(0) as u64,
                };
                let chain = if *wrong_chain { crate::driver::chain_id() + 1 } else { crate::driver::chain_id() };
                let raw = sign_legacy(*s, Some(chain), nonce, TxKind::Call(crate::evm::eoa(0)), vec![*variant, nonce as u8]);
                let hash = b256_hex(keccak256(&raw));
                let b = self.next_height();
                let mut p = self.block_fields();
                let count = self.open.unwrap();
                p.insert("raw_tx_data".into(), json!(format!("0x{}", hex::encode(&raw))));
                p.insert("inscription_id".into(), json!(self.insc()));
                p.insert("inscription_byte_len".into(), json!(2500));
                p.insert("op_return_tx_id".into(), json!(b256_hex(keccak256(&raw))));
                let r = self.inst.call("brc20_transact", Value::Object(p));
                let Resp::Ok(v) = &r else { fail!("C08/transact-failed", "op {} nonce {} (account {}): {:?}", i, nonce, an, r) };
                let got: Vec<(String, u64, String)> = v
                    .as_array()
                    .cloned()
                    .unwrap_or_default()
                    .iter()
                    .map(|rc| (rc["transactionHash"].as_str().unwrap_or("").to_string(), parse_u64(&rc["transactionIndex"]).unwrap_or(u64::MAX), rc["from"].as_str().unwrap_or("").to_lowercase()))
                    .collect();
                // model
                let mut expect_a: Vec<String> = vec![]; // limbo entries are dropped
                let mut expect_b: Vec<String> = vec![]; // limbo entries are executed
                let mut pool_a = self.pool.clone();
                let mut pool_b = self.pool.clone();
                if *wrong_chain {
                    self.stats.ignored += 1;
                } else if nonce != an {
                    if nonce > an && nonce < an + WINDOW_NONCES {
                        if pool_a.waiting.contains_key(&(*s, nonce)) {
                            self.stats.replaced += 1;
                        }
                        let e = Entry { hash: hash.clone(), parked: b };
                        pool_a.waiting.insert((*s, nonce), e.clone());
                        pool_b.waiting.insert((*s, nonce), e);
                        self.stats.parked += 1;
                    } else {
                        self.stats.ignored += 1;
                    }
                } else {
                    for (limbo_executes, pool, expect) in [(false, &mut pool_a, &mut expect_a), (true, &mut pool_b, &mut expect_b)] {
                        expect.push(hash.clone());
                        pool.nonce.insert(*s, an + 1);
                        let mut next = an + 1;
                        while let Some(e) = pool.waiting.get(&(*s, next)).cloned() {
                            let age = b - e.parked;
                            pool.waiting.remove(&(*s, next));
                            let run = age < WINDOW_BLOCKS || (age == WINDOW_BLOCKS && limbo_executes);
                            if age == WINDOW_BLOCKS - 1 || age == WINDOW_BLOCKS || age == WINDOW_BLOCKS + 1 {
                                self.stats.edge += 1;
                            }
                            if !run {
                                self.stats.expired_seen += 1;
                                break;
                            }
                            expect.push(e.hash.clone());
                            next += 1;
                            pool.nonce.insert(*s, next);
                        }
                    }
                    self.stats.executed += 1;
                }
                let got_hashes: Vec<String> = got.iter().map(|g| g.0.clone()).collect();
                let chosen = if got_hashes == expect_a {
                    if expect_a != expect_b {
                        self.stats.limbo_drop += 1;
                    }
                    pool_a
                } else if got_hashes == expect_b {
                    self.stats.limbo_exec += 1;
                    pool_b
                } else {
                    fail!(
                        "C08/returned-receipts-differ-from-pool-model",
                        "op {} signer {} nonce {} (account nonce {}, block {}): returned {:?}, model expects {:?}{} (waiting before: {:?})",
                        i, s, nonce, an, b, got_hashes, expect_a, if expect_a != expect_b { format!(" or {:?}", expect_b) } else { String::new() }, self.pool.waiting
                    );
                };
                for (k, g) in got.iter().enumerate() {
                    if g.1 != count + k as u64 {
                        fail!("C08/drained-tx-not-at-consecutive-index", "op {}: receipt {} has index {}, expected {}", i, k, g.1, count + k as u64);
                    }
                    if g.2 != addr_hex(signer_addr(*s)) {
                        fail!("C08/receipt-from-another-signer", "op {}: {}", i, g.2);
                    }
                }
                if got.len() >= 3 {
                    self.stats.drains2 += 1;
                }
                self.pool = chosen;
                self.open = Some(count + got.len() as u64);
                self.compare(&format!("after op {} {:?}", i, op))?;
            }
            POp::ParkRun(s, n, asc, trigger) => {
                let mut ks: Vec<i8> = (1..=*n as i8).collect();
                if !*asc {
                    ks.reverse();
                }
                // nonces are relative to the account nonce, which does not move while they are only parked
                for k in ks {
                    self.apply(i, &POp::Tx(*s, NSel::Rel(k), 0, false))?;
                }
                if *trigger {
                    self.apply(i, &POp::Tx(*s, NSel::Rel(0), 0, false))?;
                }
            }
            POp::Garbage(bytes) => {
                let before = self.inst.call("txpool_content", json!([]));
                let mut p = self.block_fields();
                p.insert("raw_tx_data".into(), json!(format!("0x{}", hex::encode(bytes))));
                p.insert("inscription_id".into(), json!(self.insc()));
                p.insert("inscription_byte_len".into(), json!(2500));
                p.insert("op_return_tx_id".into(), json!(b256_hex(keccak256(bytes))));
                let r = self.inst.call("brc20_transact", Value::Object(p));
                match &r {
                    Resp::Panic(m) => fail!("C08/panic", "op {}: {}", i, m),
                    Resp::Ok(v) if v.as_array().map(|a| !a.is_empty()).unwrap_or(true) => fail!("C08/garbage-tx-executed", "op {}: {}", i, v),
                    _ => {}
                }
                let after = self.inst.call("txpool_content", json!([]));
                if crate::observe::canon_resp(&before) != crate::observe::canon_resp(&after) {
                    fail!("C08/undecodable-tx-changed-the-pool", "op {}", i);
                }
                self.compare(&format!("after op {} garbage", i))?;
            }
            POp::Insc => {
                let mut p = self.block_fields();
                let count = self.open.unwrap();
                p.insert("from_pkscript".into(), json!(PKSCRIPTS[0]));
                p.insert("contract_address".into(), json!(addr_hex(crate::evm::eoa(1))));
                p.insert("data".into(), json!(format!("0x{:04x}", self.seq & 0xffff)));
                p.insert("inscription_id".into(), json!(self.insc()));
                p.insert("inscription_byte_len".into(), json!(2500));
                p.insert("op_return_tx_id".into(), json!(b256_hex(keccak256(b"x"))));
                let r = self.inst.call("brc20_call", Value::Object(p));
                if !r.is_ok() {
                    fail!("C08/inscription-call-failed", "op {}: {:?}", i, r);
                }
                self.open = Some(count + 1);
            }
            POp::Finalise => {
                self.open.get_or_insert(0);
                self.finalise()?;
                self.compare(&format!("after op {} finalise of block {}", i, self.next_height() - 1))?;
            }
            POp::Mine(n) => {
                self.boundary()?;
                let r = self.inst.call("brc20_mine", json!([*n, TS]));
                if !r.is_ok() {
                    fail!("C08/mine-failed", "op {}: {:?}", i, r);
                }
                for _ in 0..*n {
                    let h = self.next_height();
                    self.pool.expire(h);
                    self.snaps.push(self.pool.clone());
                    self.hef = self.hef.max(h);
                }
                self.compare(&format!("after op {} mine {}", i, n))?;
            }
            POp::Commit => {
                self.boundary()?;
                let r = self.inst.call("brc20_commitToDatabase", json!([]));
                if !r.is_ok() {
                    fail!("C08/commit-failed", "op {}: {:?}", i, r);
                }
                self.committed = self.snaps.len();
            }
            POp::Clear => {
                let r = self.inst.call("brc20_clearCaches", json!([]));
                if !r.is_ok() {
                    fail!("C08/clear-failed", "op {}: {:?}", i, r);
                }
                self.open = None;
                if self.committed == 0 {
                    // nothing durable: the chain is empty again; start over with one mined block
                    let r = self.inst.call("brc20_mine", json!([1, TS]));
                    if !r.is_ok() {
                        fail!("C08/setup", "{:?}", r);
                    }
                    self.snaps = vec![Pool::default()];
                } else {
                    self.snaps.truncate(self.committed);
                }
                self.pool = self.snaps.last().unwrap().clone();
                self.compare(&format!("after op {} clearCaches", i))?;
            }
            POp::Reorg(d) => {
                self.boundary()?;
                let h = self.next_height() - 1;
                let n = h.saturating_sub(*d as u64);
                let expected = self.hef - n <= 10;
                let r = self.inst.call("brc20_reorg", json!([n]));
                if r.is_panic() {
                    fail!("C08/panic", "op {} reorg({}): {:?}", i, n, r);
                }
                if n < h {
                    if r.is_ok() != expected {
                        fail!("C08/reorg-acceptance", "op {} reorg({}) at height {} hef {}: {:?}", i, n, h, self.hef, r);
                    }
                    if r.is_ok() {
                        self.snaps.truncate(n as usize + 1);
                        self.pool = self.snaps.last().unwrap().clone();
                        self.committed = self.snaps.len();
                    }
                }
                self.compare(&format!("after op {} reorg({})", i, n))?;
            }
        }
        Ok(())
    }

    /// on-chain signed transactions of each signer have nonces 0,1,2,... each once
    fn chain_scan(&mut self) -> Result<(), Failure> {
        let mut seen: BTreeMap<String, Vec<u64>> = BTreeMap::new();
        for h in 0..self.next_height() {
            let b = self.inst.call("eth_getBlockByNumber", json!([h.to_string(), true]));
            let Some(b) = b.ok().cloned() else { fail!("C08/block-missing", "block {}", h) };
            for tx in b["transactions"].as_array().cloned().unwrap_or_default() {
                let from = tx["from"].as_str().unwrap_or("").to_lowercase();
                if (0..3u8).any(|s| addr_hex(signer_addr(s)) == from) {
                    seen.entry(from).or_default().push(parse_u64(&tx["nonce"]).unwrap_or(u64::MAX));
                }
            }
        }
        for (a, ns) in seen {
            let want: Vec<u64> = (0..ns.len() as u64).collect();
            if ns != want {
                fail!("C08/on-chain-nonces-not-consecutive", "signer {}: nonces on chain {:?}", a, ns);
            }
        }
        Ok(())
    }
}

fn run(ops: &[POp]) -> CheckResult {
    let mut info = CaseInfo::default();
    let mut sim = Sim::new()?;
    for (i, op) in ops.iter().enumerate() {
        sim.apply(i, op)?;
    }
    sim.boundary()?;
    sim.compare("at the end")?;
    sim.chain_scan()?;
    info.nontrivial = sim.stats.drains2 > 0 || sim.stats.edge > 0;
    info.class_if(sim.stats.drains2 > 0, "drain-of-2+-parked");
    info.class_if(sim.stats.edge > 0, "entry-aged-9-10-11-at-predecessor");
    info.class_if(sim.stats.expired_seen > 0, "expired-entry-met-in-drain");
    info.class_if(sim.stats.replaced > 0, "replacement-of-waiting-nonce");
    info.class_if(sim.stats.limbo_exec > 0, "limbo-entry-executed");
    info.class_if(sim.stats.limbo_drop > 0, "limbo-entry-dropped");
    info.class_if(sim.stats.ignored > 0, "ignored-tx");
    Ok(info)
}

pub fn check(case: &Case) -> CheckResult {
    run(&case.ops)
}

// ---- exhaustive small scope: every arrival order of up to `len` signed txs of one signer with
// nonces in 0..4 (variant B marks a different tx for the same nonce) and every gap pattern
const GAPS: [u8; 5] = [0, 1, 9, 10, 11];

fn decode_small(mut idx: u64, len: usize, variants: u64) -> Vec<POp> {
    let sym = 4 * variants;
    let mut ops = vec![];
    for k in 0..len {
        let s = idx % sym;
        idx /= sym;
        let (nonce, variant) = ((s % 4) as u8, (s / 4) as u8);
        if k > 0 {
            let g = GAPS[(idx % 5) as usize];
            idx /= 5;
            match g {
                0 => {}
                1 => ops.push(POp::Finalise),
                g => {
                    ops.push(POp::Finalise);
                    ops.push(POp::Mine(g - 1));
                }
            }
        }
        ops.push(POp::Tx(0, NSel::Abs(nonce), variant, false));
    }
    ops
}

/// full-window family: park nonces 1..=n (ascending / descending), wait g blocks, then submit nonce 0
fn window_family() -> Vec<Vec<POp>> {
    let mut v = vec![];
    for n in 1..=11u8 {
        for asc in [true, false] {
            for g in [0u8, 1, 9, 10] {
                let mut ops = vec![POp::ParkRun(0, n, asc, false)];
                match g {
                    0 => {}
                    1 => ops.push(POp::Finalise),
                    g => {
                        ops.push(POp::Finalise);
                        ops.push(POp::Mine(g - 1));
                    }
                }
                ops.push(POp::Tx(0, NSel::Abs(0), 0, false));
                ops.push(POp::Finalise);
                v.push(ops);
            }
        }
    }
    v
}

fn small_space(len: usize, variants: u64) -> u64 {
    (4 * variants).pow(len as u32) * 5u64.pow(len as u32 - 1)
}

impl Property for C08 {
    fn id(&self) -> &'static str {
        "C08"
    }
    fn run(&self, ctx: &Ctx, ev: &mut Evidence) -> Vec<Found> {
        ev.assumptions.push("signed transactions carry a 30 M gas allowance so that none fails validation (a validation failure does not consume the nonce: known finding of C06); 'within 10 blocks': an entry parked in block b must run when its predecessor arrives in b..b+9 and be gone after b+10 is finalised, while b+10 is under construction either treatment and either listing is accepted".into());
        // exhaustive parts: (length, variants)
        let parts: Vec<(usize, u64)> = ctx.tier.pick(vec![(1, 2), (2, 2), (3, 1)], vec![(1, 2), (2, 2), (3, 2), (4, 1)]);
        let mut offsets = vec![];
        let mut total = 0u64;
        for (l, v) in &parts {
            offsets.push((total, *l, *v));
            total += small_space(*l, *v);
        }
        let offs = offsets.clone();
        let fam = window_family();
        let fam_base = total;
        total += fam.len() as u64;
        let decode = move |i: u64| -> Vec<POp> {
            if i >= fam_base {
                return fam[(i - fam_base) as usize].clone();
            }
            let (base, l, v) = offs.iter().rev().find(|(b, _, _)| *b <= i).cloned().unwrap();
            decode_small(i - base, l, v)
        };
        let mut found = explore_indexed(
            ctx,
            ev,
            "small-scope",
            &format!("exhaustive: every arrival sequence of signed transactions of one signer with nonces in 0..4 (second variant = another transaction for the same nonce) crossed with every block-gap pattern from {{0,1,9,10,11}} between arrivals, for (length, variants) in {:?}, plus the full-window family (park nonces 1..=n for n = 1..11 ascending/descending, wait 0/1/9/10 blocks, submit nonce 0): {} sequences; compared with the reference pool model after every call. Non-trivial = a drain of >= 2 parked nonces or an entry aged 9/10/11 blocks when its predecessor arrives", parts, total),
            total,
            |i| {
                let ops = decode(i);
                (run(&ops), json!(ops))
            },
        );
        if !is_worker() {
            ev.extra.insert("small_scope_sequences".into(), json!(total));
            ev.exhaustive = Some(true);
        }
        let cfg = PartCfg {
            name: "random",
            rule: "random sequences (10-70 ops): 3 signers, nonces relative to the account nonce (-3..+11), 3 variants, wrong chain id, garbage RLP, interleaved inscription calls, finalise, mine 1-3 / 7-11, commit, clearCaches, reorgs; reference pool model (with per-block snapshots for reorg/clear) compared after every call: returned receipts (count, hashes, consecutive indexes), txpool_content(+From), account nonces; at the end on-chain nonces per signer are 0,1,2,... Same non-triviality rule",
            cases: ctx.tier.pick(1500, 20_000),
            max_shrink_iters: ctx.tier.pick(400, 1500),
        };
        found.extend(explore(ctx, ev, &cfg, strategy, check));
        found
    }
    fn replay(&self, part: &str, case: &Value) -> CheckResult {
        if part == "small-scope" {
            let ops: Vec<POp> = decode_case(&case["desc"])?;
            return run(&ops);
        }
        check(&decode_case::<Case>(case)?)
    }
}
