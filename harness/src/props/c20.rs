//! C20 — a database only reopens under the configuration it was created with.
use std::path::{Path, PathBuf};

use alloy::primitives::keccak256;
use brc20_prog::verif::Encode;
use serde_json::{json, Value};

use crate::driver::fresh_dir;
use crate::engine::*;
use crate::fail;
use crate::http::{config, free_port, post, Server};
use crate::ops::*;
use crate::props::c10::dump;
use crate::props::Property;
use crate::rpcgen::RUNTIME_STORE;

pub struct C20;

const NETWORKS: [&str; 7] = ["mainnet", "bitcoin", "signet", "testnet", "testnet4", "regtest", "unknownnet"];

fn rpc(port: u16, method: &str, params: Value) -> Value {
    let body = json!({"jsonrpc": "2.0", "id": 1, "method": method, "params": params}).to_string();
    post(port, &body, &[]).map(|r| r.json()).unwrap_or(Value::Null)
}

fn observation(port: u16, contract: &str) -> Value {
    let qs: Vec<(&str, Value)> = vec![
        ("eth_blockNumber", json!([])),
        ("eth_getBlockByNumber", json!(["1", true])),
        ("eth_getBlockByNumber", json!(["latest", false])),
        ("eth_getStorageAt", json!([contract, "0x0"])),
        ("eth_getCode", json!([contract])),
        ("eth_getTransactionCount", json!([addr_hex(pk_addr(0)), "latest"])),
        ("brc20_balance", json!([PKSCRIPTS[0], "ordi"])),
        ("eth_getLogs", json!([{"fromBlock": "0", "toBlock": "3"}])),
        ("debug_getRawBlock", json!(["1"])),
        ("txpool_content", json!([])),
    ];
    Value::Array(qs.into_iter().map(|(m, p)| crate::observe::canon(&rpc(port, m, p))).collect())
}

/// Runs in a child process: one start() (CONFIG and the RocksDB handles are process-wide).
pub fn child_main(args: &[String]) {
    let dir = PathBuf::from(&args[0]);
    let (network, traces, mode, outfile) = (args[1].as_str(), args[2] == "true", args[3].as_str(), PathBuf::from(&args[4]));
    crate::driver::install_panic_hook();
    let port = free_port();
    let cfg = config(network, &dir, port, None, traces);
    let mut out = json!({"started": false});
    match Server::start(cfg) {
        Err(e) => {
            out["error"] = json!(e);
        }
        Ok(srv) => {
            out["started"] = json!(true);
            let contract;
            if mode == "create" {
                let h1 = b256_hex(keccak256(b"c20-b1"));
                rpc(port, "brc20_initialise", json!({"genesis_hash": b256_hex(keccak256(b"c20-genesis")), "genesis_timestamp": 1, "genesis_height": 0}));
                let r = rpc(port, "brc20_deploy", json!({"from_pkscript": PKSCRIPTS[0], "data": RUNTIME_STORE, "timestamp": 2, "hash": h1, "tx_idx": 0, "inscription_id": "c20contracti0", "inscription_byte_len": 2500, "op_return_tx_id": h1}));
                contract = r["result"]["contractAddress"].as_str().unwrap_or("").to_string();
                rpc(port, "brc20_deposit", json!({"to_pkscript": PKSCRIPTS[0], "ticker": "ordi", "amount": "0x64", "timestamp": 2, "hash": h1, "tx_idx": 1, "inscription_id": "c20depositi0"}));
                rpc(port, "brc20_finaliseBlock", json!({"timestamp": 2, "hash": h1, "block_tx_count": 2}));
                rpc(port, "brc20_mine", json!([2, 3]));
                let c = rpc(port, "brc20_commitToDatabase", json!([]));
                out["commit"] = c;
                out["contract"] = json!(contract);
            } else {
                contract = args.get(5).cloned().unwrap_or_default();
            }
            out["obs"] = observation(port, &contract);
            srv.stop();
        }
    }
    std::fs::write(outfile, out.to_string()).expect("write child result");
}

fn run_child(dir: &Path, network: &str, traces: bool, mode: &str, contract: &str) -> Result<Value, Failure> {
    let outfile = dir.with_extension(format!("out-{}", std::process::id()));
    let st = std::process::Command::new(std::env::current_exe().unwrap())
        .args(["child-start", &dir.to_string_lossy(), network, if traces { "true" } else { "false" }, mode, &outfile.to_string_lossy(), contract])
        .stdout(std::process::Stdio::null())
        .stderr(std::process::Stdio::null())
        .status()
        .map_err(|e| Failure::new("harness/child", e.to_string()))?;
    let s = std::fs::read_to_string(&outfile).unwrap_or_default();
    let _ = std::fs::remove_file(&outfile);
    match serde_json::from_str::<Value>(&s) {
        Ok(v) => Ok(v),
        Err(_) => Ok(json!({"started": false, "error": format!("child died: {:?}", st), "died": true})),
    }
}

fn copy_dir(from: &Path, to: &Path) {
    std::fs::create_dir_all(to).unwrap();
    for e in std::fs::read_dir(from).unwrap().flatten() {
        let p = e.path();
        let t = to.join(e.file_name());
        if p.is_dir() {
            copy_dir(&p, &t);
        } else {
            let _ = std::fs::copy(&p, &t);
        }
    }
}

#[derive(Clone, Debug)]
enum Item {
    /// create with config a, reopen with config b
    Pair(usize, usize),
    /// directory kinds with a fixed configuration: see `tamper`
    Tamper(u8),
}

fn cfg_of(i: usize) -> (&'static str, bool) {
    (NETWORKS[i / 2], i % 2 == 0)
}

const CONFIG_KEYS: [&str; 4] = ["DB_VERSION", "PROTOCOL_VERSION", "BITCOIN_RPC_NETWORK", "EVM_RECORD_TRACES"];

fn config_db(dir: &Path) -> rocksdb::DB {
    let mut o = rocksdb::Options::default();
    o.create_if_missing(true);
    rocksdb::DB::open(&o, dir.join("config")).expect("open config store")
}

fn get_row(dir: &Path, key: &str) -> Option<String> {
    let db = config_db(dir);
    db.get(key.to_string().encode_vec()).ok().flatten().and_then(|v| <String as brc20_prog::verif::Decode>::decode_vec(&v.to_vec()).ok())
}

fn set_row(dir: &Path, key: &str, value: Option<String>) {
    let db = config_db(dir);
    match value {
        Some(v) => db.put(key.to_string().encode_vec(), v.encode_vec()).unwrap(),
        None => db.delete(key.to_string().encode_vec()).unwrap(),
    }
    let _ = db.flush();
}

fn run_item(item: &Item) -> CheckResult {
    let mut info = CaseInfo::default();
    let base = fresh_dir("c20");
    let created = base.join("db");
    let (ca, cb) = match item {
        Item::Pair(a, b) => (cfg_of(*a), cfg_of(*b)),
        Item::Tamper(_) => (("regtest", true), ("regtest", true)),
    };
    let c = run_child(&created, ca.0, ca.1, "create", "")?;
    if c["started"] != json!(true) || !c["commit"]["result"].is_null() || c["commit"].get("error").is_some() {
        let _ = std::fs::remove_dir_all(&base);
        fail!("C20/fresh-directory-does-not-start", "creating with {:?}: {}", ca, crate::observe::short(&c));
    }
    let contract = c["contract"].as_str().unwrap_or("").to_string();
    let want_obs = c["obs"].clone();
    let mut expect_open: Option<bool> = Some(true);
    let mut what = format!("created with {:?}, reopened with {:?}", ca, cb);
    match item {
        Item::Pair(..) => {
            let alias = |n: &str| if n == "bitcoin" { "mainnet" } else { n }.to_string();
            if ca == cb {
                expect_open = Some(true);
                info.class("identical-configuration");
            } else if ca.1 == cb.1 && alias(ca.0) == alias(cb.0) {
                expect_open = None; // mainnet / bitcoin: same rules, different spelling
                info.class("alias-pair");
            } else {
                expect_open = Some(false);
                info.class(if ca.1 != cb.1 && ca.0 == cb.0 { "trace-setting-differs" } else { "network-differs" });
            }
        }
        Item::Tamper(k) => {
            match k {
                0..=3 => {
                    set_row(&created, CONFIG_KEYS[*k as usize], None);
                    expect_open = Some(false);
                    what = format!("row {} deleted", CONFIG_KEYS[*k as usize]);
                    info.class("row-deleted");
                }
                4..=7 => {
                    let key = CONFIG_KEYS[(*k - 4) as usize];
                    let old = get_row(&created, key).unwrap_or_default();
                    let new = match key {
                        "BITCOIN_RPC_NETWORK" => "signet".to_string(),
                        "EVM_RECORD_TRACES" => "false".to_string(),
                        _ => (old.parse::<u64>().unwrap_or(0) + 1).to_string(),
                    };
                    set_row(&created, key, Some(new.clone()));
                    expect_open = Some(false);
                    what = format!("row {} altered from {:?} to {:?}", key, old, new);
                    info.class("row-altered");
                }
                8 | 9 => {
                    let key = CONFIG_KEYS[(*k - 8) as usize];
                    let old = get_row(&created, key).unwrap_or_default();
                    let new = old.parse::<u64>().unwrap_or(1).saturating_sub(1).to_string();
                    set_row(&created, key, Some(new.clone()));
                    expect_open = Some(false);
                    what = format!("row {} lowered from {:?} to {:?}", key, old, new);
                    info.class("version-row-lowered");
                }
                10 => {
                    // the whole configuration store removed from a populated directory
                    let _ = std::fs::remove_dir_all(created.join("config"));
                    expect_open = Some(false);
                    what = "populated directory without its configuration store".into();
                    info.class("config-store-missing");
                }
                11 => {
                    // a foreign non-empty directory
                    let _ = std::fs::remove_dir_all(&created);
                    std::fs::create_dir_all(&created).unwrap();
                    std::fs::write(created.join("notes.txt"), b"not a database").unwrap();
                    expect_open = Some(false);
                    what = "foreign non-empty directory".into();
                    info.class("foreign-directory");
                }
                12 => {
                    // a fresh (empty) directory must start
                    let _ = std::fs::remove_dir_all(&created);
                    std::fs::create_dir_all(&created).unwrap();
                    expect_open = Some(true);
                    what = "fresh empty directory".into();
                    info.class("fresh-directory");
                }
                _ => {
                    // every row rewritten with the same value: still the creating configuration
                    for key in CONFIG_KEYS {
                        let old = get_row(&created, key);
                        set_row(&created, key, old);
                    }
                    what = "rows rewritten unchanged".into();
                    info.class("rows-rewritten-unchanged");
                }
            }
        }
    }
    let work = base.join("reopen");
    copy_dir(&created, &work);
    let before = if matches!(item, Item::Tamper(11 | 12)) { vec![] } else { dump(&work).unwrap_or_default() };
    let r = run_child(&work, cb.0, cb.1, "reopen", &contract)?;
    let started = r["started"] == json!(true);
    let res: Result<(), Failure> = (|| {
        if r["died"] == json!(true) {
            fail!("C20/start-crashed", "{}: {}", what, r["error"]);
        }
        match expect_open {
            Some(true) => {
                if !started {
                    fail!("C20/identical-configuration-refused", "{}: {}", what, r["error"]);
                }
                if !matches!(item, Item::Tamper(12)) && r["obs"] != want_obs {
                    fail!("C20/reopened-state-differs", "{}: {}", what, crate::observe::json_diff(&want_obs, &r["obs"], "").unwrap_or_default());
                }
            }
            Some(false) => {
                if started {
                    fail!("C20/mismatching-configuration-accepted", "{}: the server started and serves {}", what, crate::observe::short(&r["obs"]));
                }
                if !matches!(item, Item::Tamper(11)) {
                    let after = dump(&work).unwrap_or_default();
                    // the configuration store itself may have been re-created empty when it was removed
                    let strip = |v: &Vec<(String, Vec<u8>, Vec<u8>)>| v.iter().filter(|x| x.0 != "config").cloned().collect::<Vec<_>>();
                    if strip(&before) != strip(&after) {
                        fail!("C20/refused-start-changed-the-data-stores", "{}", what);
                    }
                    if !matches!(item, Item::Tamper(10)) && before != after {
                        fail!("C20/refused-start-changed-the-recorded-configuration", "{}", what);
                    }
                }
            }
            None => {
                if started && r["obs"] != want_obs {
                    fail!("C20/alias-network-serves-different-state", "{}", what);
                }
                info.class(if started { "alias-accepted" } else { "alias-refused" });
            }
        }
        Ok(())
    })();
    let _ = std::fs::remove_dir_all(&base);
    res?;
    info.nontrivial = expect_open == Some(false) || matches!(item, Item::Pair(a, b) if a == b);
    Ok(info)
}

fn items() -> Vec<Item> {
    let mut v = vec![];
    for a in 0..NETWORKS.len() * 2 {
        for b in 0..NETWORKS.len() * 2 {
            v.push(Item::Pair(a, b));
        }
    }
    for k in 0..14u8 {
        v.push(Item::Tamper(k));
    }
    v
}

impl Property for C20 {
    fn id(&self) -> &'static str {
        "C20"
    }
    fn run(&self, ctx: &Ctx, ev: &mut Evidence) -> Vec<Found> {
        ev.assumptions.push("each start() runs in its own child process through the public entry point (configuration and RocksDB handles are process-wide); 'unchanged' = logical contents of all stores (RocksDB rewrites its own log files on every open); mainnet/bitcoin are aliases: either outcome is accepted but an accepted reopen must serve the same state".into());
        let its = items();
        let total = its.len() as u64;
        if !is_worker() {
            ev.exhaustive = Some(true);
            ev.extra.insert("pairs".into(), json!((NETWORKS.len() * 2).pow(2)));
            ev.extra.insert("directory_kinds".into(), json!(14));
        }
        let its_ref = &its;
        let _ = ctx;
        explore_indexed(
            ctx,
            ev,
            "matrix",
            "exhaustive: all 196 ordered pairs (creating, reopening) over networks {mainnet, bitcoin, signet, testnet, testnet4, regtest, unknownnet} x traces {on, off} on a populated + committed directory, plus 14 directory kinds (each of the 4 rows deleted / altered, version rows lowered, configuration store removed, foreign non-empty directory, fresh directory, rows rewritten unchanged): identical configuration => starts and serves the recorded observation; any difference or missing record => start fails and the logical contents of all stores are unchanged. Non-trivial = a mismatch that must be refused, or an identical pair that must serve the same state",
            total,
            move |i| (run_item(&its_ref[i as usize]), json!(format!("{:?}", its_ref[i as usize]))),
        )
    }
    fn replay(&self, _part: &str, case: &Value) -> CheckResult {
        let i = case["index"].as_u64().unwrap_or(0) as usize;
        let its = items();
        run_item(&its[i.min(its.len() - 1)])
    }
}
