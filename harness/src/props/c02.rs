//! C02 — replicas fed the same call history agree byte for byte.
use proptest::prelude::*;
use proptest::test_runner::{Config, RngAlgorithm, TestRng, TestRunner};
use serde::{Deserialize, Serialize};
use serde_json::{json, Value};

use crate::engine::*;
use crate::fail;
use crate::observe::{self, canon_resp, observe};
use crate::ops::*;
use crate::props::Property;

pub struct C02;

#[derive(Clone, Debug, Serialize, Deserialize)]
pub struct Case {
    pub ops: Vec<Op>,
    /// replica B commits and restarts after these op indexes (lossless, must be unobservable)
    pub restarts: Vec<u16>,
}

impl Simplify for Case {
    fn simpler(&self) -> Vec<Self> {
        let mut v: Vec<Case> = simpler_vec(&self.ops, 1).into_iter().map(|ops| Case { ops, restarts: self.restarts.clone() }).collect();
        if !self.restarts.is_empty() {
            v.insert(0, Case { ops: self.ops.clone(), restarts: vec![] });
        }
        v
    }
}

fn hist_cfg() -> HistCfg {
    let mut c = HistCfg::general();
    c.w_clear = 0;
    c.w_reopen = 0; // restarts of replica B are driven by `restarts`; A's are part of the shared history
    c.w_reorg = 3;
    c
}

fn strategy() -> BoxedStrategy<Case> {
    (history_strategy(hist_cfg()), proptest::collection::vec(any::<u16>(), 0..4)).prop_map(|(ops, restarts)| Case { ops, restarts }).boxed()
}

fn events_equal(a: &Runner, b: &Runner, from_a: usize, from_b: usize, i: usize) -> Result<(), Failure> {
    let ea = &a.events[from_a..];
    let eb = &b.events[from_b..];
    if ea.len() != eb.len() {
        fail!("C02/call-sequence-diverged", "op {}: replica A issued {} calls, B {}", i, ea.len(), eb.len());
    }
    for (x, y) in ea.iter().zip(eb.iter()) {
        if x.req != y.req {
            fail!("C02/call-sequence-diverged", "op {}: requests differ: {} {} vs {} {}", i, x.req.method, x.req.params, y.req.method, y.req.params);
        }
        let (rx, ry) = (canon_resp(&x.resp), canon_resp(&y.resp));
        if rx != ry {
            fail!(format!("C02/response-differs:{}", x.req.method), "op {} {}: {}", i, x.req.method, observe::json_diff(&rx, &ry, "").unwrap_or_default());
        }
    }
    Ok(())
}

pub fn check(case: &Case) -> CheckResult {
    let mut info = CaseInfo::default();
    let mut a = Runner::new("c02a");
    let mut b = Runner::new("c02b");
    let restart_at: Vec<usize> = case.restarts.iter().map(|r| pick_idx(*r, case.ops.len().max(1))).collect();
    let mut restarts_done = 0;
    for (i, op) in case.ops.iter().enumerate() {
        let (fa, fb) = (a.events.len(), b.events.len());
        a.apply(i, op);
        b.apply(i, op);
        events_equal(&a, &b, fa, fb, i)?;
        if let Some(p) = a.events.last().filter(|e| e.resp.is_panic()) {
            fail!("C02/panic", "op {} {}: {:?}", i, p.req.method, p.resp);
        }
        if restart_at.contains(&i) && b.at_boundary() {
            // lossless restart of replica B only
            let r = b.inst.call("brc20_commitToDatabase", json!([]));
            if !r.is_ok() {
                fail!("C02/commit-failed", "op {}: {:?}", i, r);
            }
            b.model.committed = b.model.blocks.len();
            if let Err(e) = b.inst.reopen() {
                fail!("C02/reopen-failed", "op {}: {}", i, e);
            }
            // A must then be equally durable for later clears to mean the same thing
            let r = a.inst.call("brc20_commitToDatabase", json!([]));
            if !r.is_ok() {
                fail!("C02/commit-failed", "op {}: {:?}", i, r);
            }
            a.model.committed = a.model.blocks.len();
            restarts_done += 1;
        }
        if i % 6 == 5 || i + 1 == case.ops.len() {
            let oa = observe(&mut a.inst, &a.uni);
            let ob = observe(&mut b.inst, &a.uni);
            crate::props::c01::differs(&oa, &ob, "C02", &format!("after op {}", i))?;
        }
    }
    a.to_boundary();
    b.to_boundary();
    let oa = observe(&mut a.inst, &a.uni);
    let ob = observe(&mut b.inst, &a.uni);
    crate::props::c01::differs(&oa, &ob, "C02", "at the end")?;
    info.nontrivial = a.stats.max_block_txs >= 3 && a.stats.logs >= 2;
    info.class_if(restarts_done > 0, "replica-restarted");
    info.class_if(a.stats.max_block_txs >= 3, "block-with-3+-txs");
    info.class_if(a.stats.logs >= 2, "2+-logs");
    info.class_if(a.stats.reorg_accepted > 0, "reorg");
    info.class_if(a.stats.drained > 0, "drain");
    Ok(info)
}

// ---------------------------------------------------------------------------------------------
// pinned digests

const GOLDEN_N: usize = 48;

fn golden_histories() -> Vec<Vec<Op>> {
    // frozen seed, independent of VERIF_SEED
    let rng = TestRng::from_seed(RngAlgorithm::ChaCha, &alloy::primitives::keccak256(b"C02-golden-corpus-v1").0);
    let mut runner = TestRunner::new_with_rng(Config::default(), rng);
    let mut c = HistCfg::general().no_persistence_events();
    c.min_ops = 12;
    c.max_ops = 40;
    let s = history_strategy(c);
    (0..GOLDEN_N).map(|_| s.new_tree(&mut runner).expect("tree").current()).collect()
}

fn short_hash(v: &Value) -> String {
    sha256::digest(v.to_string())[..10].to_string()
}

/// (per-event digests, observation digest)
fn golden_run(ops: &[Op]) -> (Vec<String>, String, Vec<String>) {
    let mut r = Runner::new("c02g");
    r.run(ops);
    r.to_boundary();
    // fixed probes of consensus-relevant charges and derivations that generated code rarely reaches:
    // gas of every helper contract with well-formed input (estimates depend on the charge), closed-override
    // Bitcoin helpers, the derived sender of a pkscript
    // the three node-independent helpers also as transactions: their receipts carry the exact gas
    for (m, p) in golden_probes().into_iter().filter(|(m, _)| *m == "eth_call" || *m == "eth_estimateGas") {
        let _ = m;
        let call = &p[0];
        r.raw_tx(
            "brc20_call",
            json!({"from_pkscript": PKSCRIPTS[2], "contract_address": call["to"], "data": call["data"]}),
            &Blk { hash: HashSel::Fresh, ts: 99 },
            2500,
            false,
        );
    }
    r.to_boundary();
    for (m, p) in golden_probes() {
        r.send(m, p);
    }
    let ev: Vec<String> = r.events.iter().map(|e| short_hash(&json!([e.req.method, e.req.params, canon_resp(&e.resp)]))).collect();
    let names: Vec<String> = r.events.iter().map(|e| format!("{} -> {}", e.req.method, observe::short(&canon_resp(&e.resp)))).collect();
    let obs = observe(&mut r.inst, &r.uni);
    let od = sha256::digest(serde_json::to_string(&obs).unwrap());
    (ev, od, names)
}

fn golden_probes() -> Vec<(&'static str, Value)> {
    use alloy::primitives::{Bytes, U256};
    use alloy::sol_types::SolCall;
    use crate::props::c09::{getLastSatLocationCall, getLockedPkscriptCall, getTxDetailsCall, getTxIdCall, graph_overrides, verifyCall, TxGraph};
    let hexs = |b: &[u8]| format!("0x{}", hex::encode(b));
    let helper = |a: u8| format!("0x{}{:02x}", "00".repeat(19), a);
    let p2tr: Vec<u8> = [vec![0x51, 0x20], alloy::primitives::keccak256(b"golden-key").to_vec()].concat();
    let lock = getLockedPkscriptCall { pkscript: Bytes::from(p2tr.clone()), lock_block_count: U256::from(6u64) }.abi_encode();
    // a valid BIP-322 simple signature (p2wpkh, deterministic RFC 6979 nonce): only a successful
    // verification shows the helper's own charge, a failing one burns all gas
    let bip = {
        use bitcoin::consensus::Encodable;
        let spk = hex::decode("00142b05d564e6a7a33c087f16e0f730d1440123799d").unwrap();
        let net = match crate::driver::network().as_str() {
            "mainnet" | "bitcoin" => bitcoin::Network::Bitcoin,
            "signet" => bitcoin::Network::Signet,
            "regtest" => bitcoin::Network::Regtest,
            _ => bitcoin::Network::Testnet,
        };
        let address = bitcoin::Address::from_script(bitcoin::Script::from_bytes(&spk), net).expect("p2wpkh address");
        let key = bitcoin::PrivateKey::from_wif("L3VFeEujGtevx9w18HD1fhRbCH67Az2dpCymeRE1SoPK6XQtaN2k").expect("wif");
        let witness = bip322::sign_simple(&address, b"Hello World", key).expect("sign");
        let mut sig = Vec::new();
        witness.consensus_encode(&mut sig).expect("encode");
        let _ = p2tr.len();
        verifyCall { pkscript: Bytes::from(spk), message: Bytes::from(b"Hello World".to_vec()), signature: Bytes::from(sig) }.abi_encode()
    };
    let g = TxGraph { txs: vec![(vec![(Some(1), 0)], vec![(2, vec![0x6a]), (1, vec![0x51])]), (vec![(Some(2), 1)], vec![(2, vec![0x00, 0x14])]), (vec![(None, 0)], vec![(1, vec![]), (2, vec![0x51])])] };
    let ov = graph_overrides(&g);
    let key = |i: usize| alloy::primitives::keccak256(format!("c09-btctx-{}", i));
    let hexes: serde_json::Map<String, Value> = ov.iter().map(|(k, v)| (b256_hex(*k), json!(hexs(v)))).collect();
    let from = addr_hex(pk_addr(2));
    let calls = json!([
        {"from": from, "to": helper(0xfd), "data": hexs(&getTxDetailsCall { txid: key(0) }.abi_encode())},
        {"from": from, "to": helper(0xfc), "data": hexs(&getLastSatLocationCall { txid: key(0), vout: U256::from(1u64), sat: U256::from(0u64) }.abi_encode())},
        {"from": from, "to": helper(0xfb), "data": hexs(&lock)},
    ]);
    let pd = json!({"opReturnTxIds": [b256_hex(key(7)), b256_hex(key(8)), b256_hex(key(9))], "bitcoinTxHexes": hexes});
    vec![
        ("eth_estimateGas", json!([{"from": from, "to": helper(0xfb), "data": hexs(&lock)}])),
        ("eth_call", json!([{"from": from, "to": helper(0xfb), "data": hexs(&lock)}])),
        ("eth_estimateGas", json!([{"from": from, "to": helper(0xfa), "data": hexs(&getTxIdCall {}.abi_encode())}])),
        ("eth_call", json!([{"from": from, "to": helper(0xfe), "data": hexs(&bip)}])),
        ("eth_callMany", json!([calls.clone(), Value::Null, pd.clone()])),
        ("eth_estimateGasMany", json!([calls, Value::Null, pd])),
    ]
}

fn golden_path(network: &str) -> std::path::PathBuf {
    verif_root().join("golden").join(format!("C02-{}.json", network))
}

fn versions() -> Value {
    { let (p, d) = brc20_prog::verif::versions(); json!({"protocol_version": p, "db_version": d}) }
}

pub fn bless(network: &str) {
    let hs = golden_histories();
    let entries: Vec<Value> = hs
        .iter()
        .map(|h| {
            let (ev, od, _) = golden_run(h);
            json!({"events": ev, "obs": od})
        })
        .collect();
    let doc = json!({"network": network, "versions": versions(), "corpus": "C02-golden-corpus-v1", "histories": entries});
    let p = golden_path(network);
    let _ = std::fs::create_dir_all(p.parent().unwrap());
    std::fs::write(&p, serde_json::to_string(&doc).unwrap()).unwrap();
    println!("blessed {} ({} histories)", p.display(), hs.len());
}

fn golden_check_one(network: &str, idx: usize) -> CheckResult {
    let p = golden_path(network);
    let doc: Value = match std::fs::read_to_string(&p).ok().and_then(|s| serde_json::from_str(&s).ok()) {
        Some(d) => d,
        None => fail!("harness/golden-missing", "{} missing", p.display()),
    };
    let mut info = CaseInfo::default();
    if doc["versions"] != versions() {
        info.class("golden-skipped-version-differs");
        return Ok(info);
    }
    let hs = golden_histories();
    let (ev, od, names) = golden_run(&hs[idx]);
    let want = &doc["histories"][idx];
    let wev: Vec<String> = want["events"].as_array().map(|a| a.iter().filter_map(|x| x.as_str().map(String::from)).collect()).unwrap_or_default();
    for (k, (g, w)) in ev.iter().zip(wev.iter()).enumerate() {
        if g != w {
            fail!("C02/golden-digest-differs", "network {} history {} call {}: {} (digest {} pinned {})", network, idx, k, names[k], g, w);
        }
    }
    if ev.len() != wev.len() {
        fail!("C02/golden-digest-differs", "network {} history {}: {} calls, pinned {}", network, idx, ev.len(), wev.len());
    }
    if want["obs"].as_str() != Some(&od) {
        fail!("C02/golden-digest-differs", "network {} history {}: final observation digest {} pinned {}", network, idx, od, want["obs"]);
    }
    info.nontrivial = true;
    info.class("golden-history");
    Ok(info)
}

#[derive(Clone, Debug, Serialize, Deserialize)]
pub struct GoldenCase {
    pub network: String,
    pub idx: usize,
}

const GOLDEN_NETWORKS: [&str; 3] = ["regtest", "signet", "mainnet"];

fn golden_part(ctx: &Ctx, ev: &mut Evidence) -> Vec<Found> {
    let mut found = vec![];
    for net in GOLDEN_NETWORKS {
        let name: &'static str = match net {
            "regtest" => "golden-regtest",
            "signet" => "golden-signet",
            _ => "golden-mainnet",
        };
        let f = explore_indexed_net(
            ctx,
            ev,
            name,
            "fixed corpus of 48 generated histories (frozen generator seed, independent of VERIF_SEED) run in worker processes configured for this network (regtest: Prague + RLP transaction hashes everywhere; signet: Cancun at low heights; mainnet: Cancun, pre-RLP transaction hashes, mainnet chain id): per-call response digests and the digest of the final observation must equal /verif/golden/C02-<network>.json recorded for the same PROTOCOL_VERSION/DB_VERSION (skipped, and counted as such, if the tree reports other versions)",
            GOLDEN_N as u64,
            Some(net),
            move |i| (golden_check_one(net, i as usize), json!(GoldenCase { network: net.to_string(), idx: i as usize })),
        );
        found.extend(f);
    }
    found
}

impl Property for C02 {
    fn id(&self) -> &'static str {
        "C02"
    }
    fn run(&self, ctx: &Ctx, ev: &mut Evidence) -> Vec<Found> {
        ev.assumptions.push("replicas are instances in one process with independently seeded hash maps; replica B is additionally committed+restarted at random boundaries".into());
        let cfg = PartCfg {
            name: "twin",
            rule: "the same generated history is fed to two instances; every response and, every 6 ops and at the end, the full observation must be identical (arrays in identical order). Non-trivial = the history has a block with >= 3 transactions and >= 2 logs; distinct by serialised case",
            cases: ctx.tier.pick(700, 10_000),
            max_shrink_iters: ctx.tier.pick(250, 1000),
        };
        let mut found = explore(ctx, ev, &cfg, strategy, check);
        found.extend(golden_part(ctx, ev));
        found
    }
    fn part_network(&self, part: &str) -> Option<&'static str> {
        match part {
            "golden-signet" => Some("signet"),
            "golden-mainnet" => Some("mainnet"),
            _ => None,
        }
    }
    fn replay(&self, part: &str, case: &Value) -> CheckResult {
        if part.starts_with("golden") {
            let case = if case.get("desc").is_some() { &case["desc"] } else { case };
            let g: GoldenCase = decode_case(case)?;
            if g.network != crate::driver::network() {
                fail!("harness/replay-network", "replay needs VERIF_NETWORK={}", g.network);
            }
            return golden_check_one(&g.network, g.idx);
        }
        check(&decode_case::<Case>(case)?)
    }
}

pub fn debug_golden() {
    let hs = golden_histories();
    let (_, _, names) = golden_run(&hs[0]);
    for n in names.iter().rev().take(10).rev() {
        println!("{}", &n[..n.len().min(400)]);
    }
}
