//! C16 — gas allowance follows inscription size and gas estimates are sufficient.
use alloy::primitives::Address;
use proptest::prelude::*;
use serde::{Deserialize, Serialize};
use serde_json::{json, Value};

use crate::driver::Resp;
use crate::engine::*;
use crate::evm::{self, Act, Env, Prog, ProgCfg, Val};
use crate::fail;
use crate::observe::Obs;
use crate::ops::*;
use crate::props::c17::{simulate, submit, Sender};
use crate::props::Property;

pub struct C16;

const GAS_PER_BYTE: u64 = 12000;

#[derive(Clone, Debug, Serialize, Deserialize)]
pub enum LenSel {
    Zero,
    One,
    Two,
    NeedMinus1,
    Need,
    NeedPlus1,
    TenNeed,
    Big40,
    Max,
}

#[derive(Clone, Debug, Serialize, Deserialize)]
pub enum What {
    /// call block `sel` of the flat (call-free) contract deployed first
    FlatCall(u8, u8),
    FlatCreate(Prog),
    /// anything (nested calls/creates): only the allowance rules are asserted
    AnyCall(u16, u8, u8),
    AnyCreate(Prog),
    /// signed pair: nonce+1 is parked with a reported length of `a` bytes, then nonce arrives with `b` bytes
    /// and drains it: each transaction keeps the allowance of the length reported for *it*
    ParkDrain(u16, u16),
}

#[derive(Clone, Debug, Serialize, Deserialize)]
pub struct Probe {
    pub sender: Sender,
    pub what: What,
    pub len: LenSel,
}

#[derive(Clone, Debug, Serialize, Deserialize)]
pub struct Case {
    pub flat: Prog,
    pub ops: Vec<Op>,
    pub probes: Vec<Probe>,
}

impl Simplify for Case {
    fn simpler(&self) -> Vec<Self> {
        let mut v = vec![];
        for i in (0..self.probes.len()).rev() {
            if self.probes.len() > 1 {
                let mut p = self.probes.clone();
                p.remove(i);
                v.push(Case { flat: self.flat.clone(), ops: self.ops.clone(), probes: p });
            }
        }
        v.extend(simpler_vec(&self.ops, 1).into_iter().map(|ops| Case { flat: self.flat.clone(), ops, probes: self.probes.clone() }));
        v
    }
}

/// programs without nested calls or creations: gas sufficiency is monotone for them
fn flat_act() -> impl Strategy<Value = Act> {
    prop_oneof![
        8 => (0u8..evm::N_SLOTS, prop_oneof![3 => (0u8..6).prop_map(Val::Const), 1 => Just(Val::Arg), 2 => Just(Val::Incr)]).prop_map(|(slot, val)| Act::SStore { slot, val }),
        4 => (proptest::collection::vec(0u8..6, 0..=4), 0u8..65).prop_map(|(topics, data_len)| Act::Log { topics, data_len }),
        3 => (0u16..3000).prop_map(|iters| Act::Burn { iters }),
        1 => (0u8..65).prop_map(|len| Act::Return { len }),
        1 => (0u8..evm::N_SLOTS).prop_map(|slot| Act::ReturnSlot { slot }),
        1 => (0u8..65).prop_map(|len| Act::Revert { len }),
        1 => Just(Act::ReturnBlockInfo),
    ]
}

fn flat_prog() -> impl Strategy<Value = Prog> {
    (proptest::collection::vec(flat_act(), 0..4), proptest::collection::vec(proptest::collection::vec(flat_act(), 1..7), 3..6)).prop_map(|(ctor, blocks)| Prog { ctor, blocks })
}

fn len_sel() -> impl Strategy<Value = LenSel> {
    prop_oneof![
        1 => Just(LenSel::Zero), 1 => Just(LenSel::One), 1 => Just(LenSel::Two), 3 => Just(LenSel::NeedMinus1), 4 => Just(LenSel::Need),
        2 => Just(LenSel::NeedPlus1), 2 => Just(LenSel::TenNeed), 1 => Just(LenSel::Big40), 1 => Just(LenSel::Max),
    ]
}

fn probe() -> impl Strategy<Value = Probe> {
    // signer #3 never appears in generated histories, so it has no parked successors that a probe could drain
    let sender = prop_oneof![3 => (0u8..5).prop_map(Sender::Pk), 1 => Just(Sender::Signer(3))];
    let what = prop_oneof![
        8 => (0u8..6, 0u8..6).prop_map(|(s, a)| What::FlatCall(s, a)),
        3 => flat_prog().prop_map(What::FlatCreate),
        3 => (any::<u16>(), 0u8..5, 0u8..6).prop_map(|(t, s, a)| What::AnyCall(t, s, a)),
        1 => evm::prog_strategy(ProgCfg::independent()).prop_map(What::AnyCreate),
        2 => (3u16..3000, 3u16..3000).prop_map(|(a, b)| What::ParkDrain(a, b)),
    ];
    (sender, what, len_sel()).prop_map(|(sender, what, len)| Probe { sender, what, len })
}

fn strategy() -> BoxedStrategy<Case> {
    let mut c = crate::props::c17::independent_cfg();
    c.max_ops = 14;
    c.min_ops = 2;
    (flat_prog(), history_strategy(c), proptest::collection::vec(probe(), 2..9)).prop_map(|(flat, ops, probes)| Case { flat, ops, probes }).boxed()
}

/// state part of the observation: code, storage, nonces (except `sender`), pool
fn state_obs(r: &mut Runner, sender: Address) -> Obs {
    let mut out: Obs = vec![];
    let mut q = |r: &mut Runner, m: &str, p: Value| {
        let resp = r.inst.call(m, p.clone());
        out.push((format!("{} {}", m, p), crate::observe::canon_resp(&resp)));
    };
    q(r, "txpool_content", json!([]));
    let addrs: Vec<String> = r.uni.addrs.iter().cloned().collect();
    for a in addrs {
        if a != addr_hex(sender) {
            q(r, "eth_getTransactionCount", json!([a, "latest"]));
        }
        q(r, "eth_getCode", json!([a]));
        for s in 0..evm::N_SLOTS as u64 {
            q(r, "eth_getStorageAt", json!([a, format!("0x{:x}", s)]));
        }
    }
    out
}

fn expected_gas(len: u64) -> u64 {
    len.saturating_mul(GAS_PER_BYTE)
}

/// run the prefix on a runner and deploy the flat contract; returns its address
fn prepare(case: &Case, tag: &str) -> Result<(Runner, Address), Failure> {
    let mut r = Runner::new(tag);
    r.run(&case.ops);
    r.to_boundary();
    if r.model.blocks.is_empty() {
        r.apply(0, &Op::Init { hash: HashSel::Fresh, ts: 1 });
    }
    let code = evm::build_init(&case.flat, &Env { contracts: &[], controller: controller() });
    let rc = submit(&mut r, &Sender::Pk(4), None, &code, 40_000)?;
    let Some(a) = rc["contractAddress"].as_str().and_then(|s| s.parse::<Address>().ok()) else {
        return Err(Failure::new("harness/flat-deploy-failed", crate::observe::short(&rc)));
    };
    r.to_boundary();
    Ok((r, a))
}

pub fn check(case: &Case) -> CheckResult {
    let mut info = CaseInfo::default();
    // twins: A gets the generated length, B (only for need-1 probes) is not needed: the estimate loop
    // runs on A for `Need`-type lengths; `need-1` outcomes are recorded, not asserted
    let (mut a, flat) = match prepare(case, "c16a") {
        Ok(x) => x,
        Err(f) if f.sig.starts_with("harness/") => {
            info.class("flat-contract-not-deployable");
            return Ok(info);
        }
        Err(f) => return Err(f),
    };
    let mut estimate_loops = 0;
    for (pi, pr) in case.probes.iter().enumerate() {
        a.to_boundary();
        let contracts = a.env_contracts();
        let env = Env { contracts: &contracts, controller: controller() };
        let from = match &pr.sender {
            Sender::Pk(i) => pk_addr(*i),
            Sender::Signer(i) => signer_addr(*i),
        };
        if let What::ParkDrain(la, lb) = &pr.what {
            let n = a.account_nonce(signer_addr(3));
            let blk = Blk { hash: HashSel::Fresh, ts: 777 };
            let raw1 = sign_legacy(3, Some(crate::driver::chain_id()), n + 1, alloy::primitives::TxKind::Call(flat), evm::calldata(0, evm::const_val(1)));
            let raw0 = sign_legacy(3, Some(crate::driver::chain_id()), n, alloy::primitives::TxKind::Call(flat), evm::calldata(1, evm::const_val(2)));
            let r1 = a.raw_tx("brc20_transact", json!({"raw_tx_data": format!("0x{}", hex::encode(raw1))}), &blk, *la as u64, false);
            if r1.ok().and_then(|v| v.as_array().map(|x| x.len())) != Some(0) {
                fail!("C16/future-nonce-not-parked", "probe {}: {:?}", pi, r1);
            }
            let r0 = a.raw_tx("brc20_transact", json!({"raw_tx_data": format!("0x{}", hex::encode(raw0))}), &blk, *lb as u64, false);
            let rcs = r0.ok().and_then(|v| v.as_array().cloned()).unwrap_or_default();
            if rcs.len() != 2 {
                fail!("C16/parked-tx-not-drained", "probe {}: {:?}", pi, r0);
            }
            for (rc, len) in rcs.iter().zip([*lb as u64, *la as u64]) {
                let th = rc["transactionHash"].as_str().unwrap_or("").to_string();
                let gas = a.inst.call("eth_getTransactionByHash", json!([th])).ok().and_then(|t| parse_u64(&t["gas"]));
                if gas != Some(expected_gas(len)) {
                    fail!("C16/gas-allowance-not-12000-per-byte", "probe {} (parked with {} bytes, drained by a call with {} bytes): transaction {} has gas {:?}, expected {}", pi, la, lb, th, gas, expected_gas(len));
                }
                if parse_u64(&rc["gasUsed"]).unwrap_or(u64::MAX) > expected_gas(len) {
                    fail!("C16/gas-used-exceeds-allowance", "probe {}: gasUsed {} allowance {}", pi, rc["gasUsed"], expected_gas(len));
                }
            }
            info.class("parked-then-drained-allowances");
            continue;
        }
        let (to, data, flat_prog) = match &pr.what {
            What::FlatCall(s, arg) => (Some(flat), evm::calldata(*s % case.flat.blocks.len() as u8, evm::const_val(*arg)), true),
            What::FlatCreate(p) => (None, evm::build_init(p, &env), true),
            What::AnyCall(t, s, arg) => (Some(evm::pick(&contracts, *t).unwrap_or(flat)), evm::calldata(*s, evm::const_val(*arg)), false),
            What::AnyCreate(p) => (None, evm::build_init(p, &env), false),
            What::ParkDrain(..) => unreachable!(),
        };
        // estimate (only meaningful if the simulation succeeds)
        let mut o = serde_json::Map::new();
        o.insert("from".into(), json!(addr_hex(from)));
        if let Some(t) = to {
            o.insert("to".into(), json!(addr_hex(t)));
        }
        o.insert("data".into(), json!(format!("0x{}", hex::encode(&data))));
        let sim = simulate(&mut a, from, to, &data);
        let est = a.inst.call("eth_estimateGas", json!([Value::Object(o)]));
        if est.is_panic() {
            fail!("C16/estimate-panicked", "probe {}: {:?}", pi, est);
        }
        let need_gas = est.ok().and_then(parse_u64);
        if sim.ok != need_gas.is_some() {
            fail!("C16/estimate-and-call-disagree-on-success", "probe {}: eth_call {} but eth_estimateGas {:?}", pi, sim.ok, est);
        }
        let need_bytes = need_gas.map(|g| (g + GAS_PER_BYTE - 1) / GAS_PER_BYTE).unwrap_or(4);
        let len = match pr.len {
            LenSel::Zero => 0,
            LenSel::One => 1,
            LenSel::Two => 2,
            LenSel::NeedMinus1 => need_bytes.saturating_sub(1),
            LenSel::Need => need_bytes,
            LenSel::NeedPlus1 => need_bytes + 1,
            LenSel::TenNeed => need_bytes * 10,
            LenSel::Big40 => {
                if flat_prog {
                    1u64 << 40
                } else {
                    need_bytes + 3
                }
            }
            LenSel::Max => {
                if flat_prog {
                    u64::MAX
                } else {
                    need_bytes + 2
                }
            }
        };
        let before = state_obs(&mut a, from);
        let rc = submit(&mut a, &pr.sender, to, &data, len)?;
        let status = parse_u64(&rc["status"]) == Some(1);
        let th = rc["transactionHash"].as_str().unwrap_or("").to_string();
        let tx = a.inst.call("eth_getTransactionByHash", json!([th]));
        let gas = tx.ok().and_then(|t| parse_u64(&t["gas"]));
        let what = format!("probe {} ({:?}, {} bytes reported, estimate {:?})", pi, pr.len, len, need_gas);
        if gas != Some(expected_gas(len)) {
            fail!("C16/gas-allowance-not-12000-per-byte", "{}: transaction gas {:?}, expected {}", what, gas, expected_gas(len));
        }
        let used = parse_u64(&rc["gasUsed"]).unwrap_or(u64::MAX);
        if used > expected_gas(len) {
            fail!("C16/gas-used-exceeds-allowance", "{}: gasUsed {} allowance {}", what, used, expected_gas(len));
        }
        if !status {
            let after = state_obs(&mut a, from);
            crate::props::c01::differs(&before, &after, "C16/failed-transaction-changed-state", &what)?;
            info.class("failed-tx-state-unchanged");
        }
        // the estimate loop proper
        if flat_prog && sim.ok && matches!(pr.len, LenSel::Need | LenSel::NeedPlus1 | LenSel::TenNeed | LenSel::Big40 | LenSel::Max) {
            if !status {
                fail!("C16/estimate-insufficient", "{}: the transaction sized by the estimate failed (gasUsed {})", what, used);
            }
            let tr = a.inst.call("debug_traceTransaction", json!([th]));
            let out = match &tr {
                Resp::Ok(t) if !t.is_null() => t["output"].as_str().unwrap_or("0x").to_lowercase(),
                o => fail!("C16/trace-not-served", "{}: {:?}", what, o),
            };
            let same = if to.is_none() {
                let ca = rc["contractAddress"].as_str().unwrap_or("").to_string();
                let code = a.inst.call("eth_getCode", json!([ca])).ok().and_then(|c| c.as_str().map(|s| s.to_lowercase())).unwrap_or_default();
                code.trim_start_matches("0x") == sim.data.trim_start_matches("0x")
            } else {
                out == sim.data
            };
            if !same {
                fail!("C16/output-differs-from-simulation", "{}: simulated {}, transaction output {}", what, sim.data, out);
            }
            estimate_loops += 1;
            info.class("estimate-loop-closed");
            if need_gas.unwrap_or(0) > 60_000 {
                info.class("need>60k");
            }
        }
        if flat_prog && sim.ok && matches!(pr.len, LenSel::NeedMinus1) {
            info.class(if status { "need-1-bytes-still-enough" } else { "need-1-bytes-failed" });
            if !status && need_gas.unwrap_or(0) > 60_000 {
                info.nontrivial = true;
            }
        }
    }
    info.nontrivial = info.nontrivial || estimate_loops > 0;
    Ok(info)
}

impl Property for C16 {
    fn id(&self) -> &'static str {
        "C16"
    }
    fn run(&self, ctx: &Ctx, ev: &mut Evidence) -> Vec<Found> {
        ev.assumptions.push("the estimate loop is asserted for programs without nested calls/creations (for those, sufficiency of gas is monotone); programs with nested calls are only checked for the allowance and failed-transaction rules, because a caught inner out-of-gas makes the outcome depend on remaining gas, which the property excludes".into());
        let cfg = PartCfg {
            name: "gas",
            rule: "a generated chain state plus 2-8 probes: calls into a generated call-free contract (storage writes, logs, loops up to 3000 iterations, returns, reverts), call-free creations, and arbitrary context-independent calls/creations, each submitted with a reported inscription length from {0,1,2,need-1,need,need+1,10*need,2^40,2^64-1} where need = ceil(eth_estimateGas/12000): tx.gas == min(len*12000, 2^64-1); gasUsed <= allowance; a failed transaction leaves code/storage/other nonces/pool unchanged; for lengths >= need the transaction succeeds with the simulated output (creations: the installed code). Non-trivial = a closed estimate loop, or need > 60k gas with need-1 bytes failing",
            cases: ctx.tier.pick(1500, 20_000),
            max_shrink_iters: ctx.tier.pick(300, 1200),
        };
        explore(ctx, ev, &cfg, strategy, check)
    }
    fn replay(&self, _part: &str, case: &Value) -> CheckResult {
        check(&decode_case::<Case>(case)?)
    }
}
