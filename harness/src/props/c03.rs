//! C03 — commit points are unobservable; uncommitted work is what is lost.
use proptest::prelude::*;
use serde::{Deserialize, Serialize};
use serde_json::{json, Value};

use crate::engine::*;
use crate::fail;
use crate::observe::observe;
use crate::ops::*;
use crate::props::c01::{compare_with_fresh, differs};
use crate::props::Property;

pub struct C03;

#[derive(Clone, Debug, Serialize, Deserialize)]
pub struct SchedCase {
    pub ops: Vec<Op>,
    /// (position, kind) — kind 0: commit, 1: commit + clearCaches, 2: commit + stop/reopen
    pub commits: Vec<(u16, u8)>,
    /// commit after every k-th op instead (0 = use `commits`)
    pub every: u8,
}

impl Simplify for SchedCase {
    fn simpler(&self) -> Vec<Self> {
        let mut v: Vec<SchedCase> = vec![];
        for i in (0..self.commits.len()).rev() {
            let mut c = self.commits.clone();
            c.remove(i);
            v.push(SchedCase { ops: self.ops.clone(), commits: c, every: self.every });
        }
        v.extend(simpler_vec(&self.ops, 1).into_iter().map(|ops| SchedCase { ops, commits: self.commits.clone(), every: self.every }));
        v
    }
}

fn sched_strategy() -> BoxedStrategy<SchedCase> {
    let mut c = HistCfg::general();
    c.w_commit = 0;
    c.w_clear = 0;
    c.w_reopen = 0;
    c.w_reorg = 3;
    (
        history_strategy(c),
        proptest::collection::vec((any::<u16>(), 0u8..3), 1..8),
        prop_oneof![3 => Just(0u8), 1 => 1u8..5],
    )
        .prop_map(|(ops, commits, every)| SchedCase { ops, commits, every })
        .boxed()
}

pub fn check_sched(case: &SchedCase) -> CheckResult {
    let mut info = CaseInfo::default();
    let mut a = Runner::new("c03a");
    let mut b = Runner::new("c03b");
    let n = case.ops.len().max(1);
    let mut plan: Vec<(usize, u8)> = case.commits.iter().map(|(p, k)| (pick_idx(*p, n), *k)).collect();
    plan.sort();
    let mut pending: Option<u8> = None;
    let mut commits_done = 0;
    let mut blocks_after_commit = false;
    for (i, op) in case.ops.iter().enumerate() {
        let (fa, fb) = (a.events.len(), b.events.len());
        a.apply(i, op);
        b.apply(i, op);
        // responses to the common calls must be identical
        let ea = &a.events[fa..];
        let eb = &b.events[fb..];
        if ea.len() != eb.len() {
            fail!("C03/call-sequence-diverged", "op {}: {} vs {} calls", i, ea.len(), eb.len());
        }
        for (x, y) in ea.iter().zip(eb.iter()) {
            let (rx, ry) = (crate::observe::canon_resp(&x.resp), crate::observe::canon_resp(&y.resp));
            if x.req != y.req || rx != ry {
                fail!(
                    format!("C03/response-differs-by-commit-schedule:{}", x.req.method),
                    "op {} {}: {}",
                    i,
                    x.req.method,
                    crate::observe::json_diff(&rx, &ry, "").unwrap_or_else(|| format!("requests differ {} vs {}", x.req.params, y.req.params))
                );
            }
        }
        if commits_done > 0 && b.stats.blocks > 0 {
            blocks_after_commit = true;
        }
        for (p, k) in &plan {
            if *p == i {
                pending = Some(*k);
            }
        }
        if case.every > 0 && i % case.every as usize == 0 {
            pending = pending.or(Some(0));
        }
        if let (Some(k), true) = (pending, b.at_boundary()) {
            pending = None;
            let r = b.inst.call("brc20_commitToDatabase", json!([]));
            if !r.is_ok() {
                fail!("C03/commit-at-boundary-failed", "op {}: {:?}", i, r);
            }
            b.model.committed = b.model.blocks.len();
            commits_done += 1;
            match k {
                1 => {
                    let r = b.inst.call("brc20_clearCaches", json!([]));
                    if !r.is_ok() {
                        fail!("C03/clear-failed", "op {}: {:?}", i, r);
                    }
                    info.class("commit+clear");
                }
                2 => {
                    if let Err(e) = b.inst.reopen() {
                        fail!("C03/reopen-failed", "op {}: {}", i, e);
                    }
                    info.class("commit+reopen");
                }
                _ => info.class("commit"),
            }
        }
        if i % 5 == 4 || i + 1 == case.ops.len() {
            let oa = observe(&mut a.inst, &a.uni);
            let ob = observe(&mut b.inst, &a.uni);
            differs(&oa, &ob, "C03/sched", &format!("after op {} ({} commits so far on replica B, none on A)", i, commits_done))?;
        }
    }
    info.nontrivial = commits_done > 0 && blocks_after_commit && a.stats.ok_txs >= 2;
    info.class_if(a.stats.reorg_accepted > 0, "reorg");
    Ok(info)
}

#[derive(Clone, Debug, Serialize, Deserialize)]
pub struct LossyCase {
    pub ops: Vec<Op>,
}

impl Simplify for LossyCase {
    fn simpler(&self) -> Vec<Self> {
        simpler_vec(&self.ops, 1).into_iter().map(|ops| LossyCase { ops }).collect()
    }
}

fn lossy_strategy() -> BoxedStrategy<LossyCase> {
    let mut c = HistCfg::general();
    c.w_commit = 8;
    c.w_clear = 6;
    c.w_reopen = 5;
    c.w_reorg = 2;
    history_strategy(c).prop_map(|ops| LossyCase { ops }).boxed()
}

pub fn check_lossy(case: &LossyCase) -> CheckResult {
    let mut info = CaseInfo::default();
    let mut a = Runner::new("c03l");
    let mut lossy_nontrivial = 0;
    for (i, op) in case.ops.iter().enumerate() {
        let is_lossy = matches!(op, Op::Clear | Op::Reopen);
        let uncommitted_state = a.model.blocks[a.model.committed.min(a.model.blocks.len())..].iter().any(|b| b.state_changing) || a.open.as_ref().map(|o| o.state_changing).unwrap_or(false);
        let midblock = a.open.is_some();
        let had_commit = a.stats.commits > 0;
        a.apply(i, op);
        if let Some(p) = a.events.last().filter(|e| e.resp.is_panic()) {
            fail!("C03/panic", "op {} {}: {:?}", i, p.req.method, p.resp);
        }
        if is_lossy {
            info.class(if matches!(op, Op::Clear) { "clear" } else { "reopen" });
            info.class_if(midblock, "lossy-step-mid-block");
            if uncommitted_state && had_commit {
                lossy_nontrivial += 1;
            }
            let when = format!("right after op {} ({:?}); {} blocks durable", i, op, a.model.committed);
            compare_with_fresh(&mut a, "C03/lossy", &when)?;
        }
    }
    a.to_boundary();
    compare_with_fresh(&mut a, "C03/lossy", "at the end of the history")?;
    if !a.anomalies.is_empty() {
        fail!("C03/conformant-call-failed", "{}", a.anomalies.join("; "));
    }
    info.nontrivial = lossy_nontrivial > 0;
    Ok(info)
}

impl Property for C03 {
    fn id(&self) -> &'static str {
        "C03"
    }
    fn run(&self, ctx: &Ctx, ev: &mut Evidence) -> Vec<Found> {
        ev.assumptions.push("which blocks are durable is decided by the harness chain model (commit and accepted reorg make everything durable)".into());
        let sched = PartCfg {
            name: "schedule",
            rule: "one generated history run on replica A without any commit and on replica B with commits (optionally followed by clearCaches or stop/reopen) at generated boundaries or every k-th op; all responses and the observation every 5 ops must be identical. Non-trivial = B committed at least once, blocks followed the commit and >= 2 transactions succeeded",
            cases: ctx.tier.pick(600, 8000),
            max_shrink_iters: ctx.tier.pick(250, 1000),
        };
        let mut found = explore(ctx, ev, &sched, sched_strategy, check_sched);
        let lossy = PartCfg {
            name: "lossy",
            rule: "generated histories with commits, clearCaches (also mid-block) and stop/reopen without commit; right after every lossy step and at the end the instance must equal a fresh instance fed only the durable chain + what followed, including replayed responses. Non-trivial = a lossy step that dropped uncommitted state-changing work after at least one commit",
            cases: ctx.tier.pick(600, 8000),
            max_shrink_iters: ctx.tier.pick(250, 1000),
        };
        found.extend(explore(ctx, ev, &lossy, lossy_strategy, check_lossy));
        found
    }
    fn replay(&self, part: &str, case: &Value) -> CheckResult {
        if part == "lossy" {
            check_lossy(&decode_case::<LossyCase>(case)?)
        } else {
            check_sched(&decode_case::<SchedCase>(case)?)
        }
    }
}
