//! C19 — contracts see exactly the block context the indexer supplied.
use alloy::primitives::{keccak256, Address, TxKind, B256, U256};
use proptest::prelude::*;
use serde::{Deserialize, Serialize};
use serde_json::{json, Value};

use crate::driver::{Instance, Resp};
use crate::engine::*;
use crate::evm::{self, ctx_slot, Env, BH_KS, CTX_BASE};
use crate::fail;
use crate::ops::*;
use crate::props::Property;

pub struct C19;

#[derive(Clone, Debug, Serialize, Deserialize)]
pub enum Step {
    /// inscription call of probe p by pkscript i
    Call(u8, u8),
    /// deploy another probe (its constructor records the context too)
    Deploy(u8),
    /// signed call of probe p
    Signed(u8, u8),
    /// signer s: park nonce+1 -> probe b (own txid), then `gap` blocks later submit nonce -> probe a: both run in the second call
    ParkDrain(u8, u8, u8, u8),
    Bridge(bool, u8),
    Finalise,
    Mine(u16),
    Commit,
    Reorg(u8),
    /// start a new block with these parameters (zero hash => server generated)
    Block(bool, u64),
}

#[derive(Clone, Debug, Serialize, Deserialize)]
pub struct Case {
    pub pre_mine: u16,
    pub steps: Vec<Step>,
}

impl Simplify for Case {
    fn simpler(&self) -> Vec<Self> {
        let mut v: Vec<Case> = vec![];
        if self.pre_mine > 0 {
            v.push(Case { pre_mine: 0, steps: self.steps.clone() });
        }
        v.extend(simpler_vec(&self.steps, 1).into_iter().map(|steps| Case { pre_mine: self.pre_mine, steps }));
        v
    }
}

fn step() -> impl Strategy<Value = Step> {
    prop_oneof![
        10 => (0u8..3, 0u8..5).prop_map(|(p, i)| Step::Call(p, i)),
        2 => (0u8..5).prop_map(Step::Deploy),
        4 => (0u8..3, 0u8..3).prop_map(|(s, p)| Step::Signed(s, p)),
        4 => (0u8..3, 0u8..3, 0u8..3, prop_oneof![3 => 0u8..3, 1 => 3u8..10]).prop_map(|(s, a, b, g)| Step::ParkDrain(s, a, b, g)),
        1 => (any::<bool>(), 0u8..5).prop_map(|(d, i)| Step::Bridge(d, i)),
        5 => Just(Step::Finalise),
        2 => prop_oneof![4 => 1u16..5, 1 => 250u16..262].prop_map(Step::Mine),
        1 => Just(Step::Commit),
        2 => (0u8..6).prop_map(Step::Reorg),
        6 => (prop::bool::weighted(0.3), ts_strategy()).prop_map(|(z, ts)| Step::Block(z, ts)),
    ]
}

fn strategy() -> BoxedStrategy<Case> {
    (prop_oneof![3 => Just(0u16), 1 => 1u16..8, 1 => 250u16..262], proptest::collection::vec(step(), 8..40)).prop_map(|(pre_mine, steps)| Case { pre_mine, steps }).boxed()
}

struct Sim {
    inst: Instance,
    /// served hash per height
    hashes: Vec<B256>,
    snaps_probes: Vec<usize>,
    hef: u64,
    open: Option<(B256, u64, u64)>, // hash param, ts, count
    next_blk: (bool, u64),
    seq: u64,
    probes: Vec<Address>,
    prague: bool,
    checks: u32,
    drained_checks: u32,
    horizon_checks: u32,
    zero_hash_checks: u32,
}

struct Pending {
    probe: Address,
    sender: Address,
    txid: B256,
    what: String,
}

impl Sim {
    fn next_height(&self) -> u64 {
        self.hashes.len() as u64
    }
    fn fields(&mut self) -> (serde_json::Map<String, Value>, B256) {
        if self.open.is_none() {
            self.seq += 1;
            let h = if self.next_blk.0 { B256::ZERO } else { keccak256(format!("c19blk{}", self.seq)) };
            self.open = Some((h, self.next_blk.1, 0));
        }
        let (h, ts, count) = self.open.unwrap();
        self.seq += 1;
        let txid = keccak256(format!("c19txid{}", self.seq));
        let mut p = serde_json::Map::new();
        p.insert("timestamp".into(), json!(ts));
        p.insert("hash".into(), json!(b256_hex(h)));
        p.insert("tx_idx".into(), json!(count));
        p.insert("inscription_id".into(), json!(format!("{}i0", hex::encode(keccak256(format!("c19i{}", self.seq))))));
        p.insert("inscription_byte_len".into(), json!(2500));
        p.insert("op_return_tx_id".into(), json!(b256_hex(txid)));
        (p, txid)
    }
    fn bump(&mut self, n: u64) {
        if let Some(o) = self.open.as_mut() {
            o.2 += n;
        }
    }
    fn slot(&mut self, a: Address, s: u64) -> Result<U256, Failure> {
        let r = self.inst.call("eth_getStorageAt", json!([addr_hex(a), format!("0x{:x}", CTX_BASE + s)]));
        match r.ok().and_then(|v| v.as_str().and_then(|s| U256::from_str_radix(s.trim_start_matches("0x"), 16).ok())) {
            Some(v) => Ok(v),
            None => Err(Failure::new("C19/storage-query-failed", format!("{:?}", r))),
        }
    }
    fn finalise(&mut self) -> Result<(), Failure> {
        let (h, ts, count) = self.open.unwrap_or((B256::ZERO, self.next_blk.1, 0));
        let r = self.inst.call("brc20_finaliseBlock", json!({"timestamp": ts, "hash": b256_hex(h), "block_tx_count": count}));
        if !r.is_ok() {
            fail!("C19/finalise-failed", "{:?}", r);
        }
        self.open = None;
        self.learn_hash()?;
        Ok(())
    }
    fn learn_hash(&mut self) -> Result<(), Failure> {
        let h = self.next_height();
        let r = self.inst.call("eth_getBlockByNumber", json!([h.to_string(), false]));
        let Some(bh) = r.ok().and_then(|b| b["hash"].as_str().and_then(|s| s.parse::<B256>().ok())) else { fail!("C19/block-missing", "{}: {:?}", h, r) };
        self.hashes.push(bh);
        self.snaps_probes.push(self.probes.len());
        self.hef = self.hef.max(h);
        Ok(())
    }
    fn boundary(&mut self) -> Result<(), Failure> {
        if self.open.is_some() {
            self.finalise()?;
        }
        Ok(())
    }

    /// compare the slots a probe recorded with what the harness supplied
    fn verify(&mut self, p: &Pending) -> Result<(), Failure> {
        let (hparam, ts, _) = self.open.unwrap();
        let b = self.next_height();
        let a = p.probe;
        let exp = |name: &str, got: U256, want: U256, what: &str| -> Result<(), Failure> {
            if got != want {
                return Err(Failure::new(format!("C19/context-differs:{}", name), format!("{} in block {}: contract saw {:#x}, the indexer supplied {:#x}", what, b, got, want)));
            }
            Ok(())
        };
        let w = &p.what;
        exp("NUMBER", self.slot(a, ctx_slot::NUMBER)?, U256::from(b), w)?;
        exp("TIMESTAMP", self.slot(a, ctx_slot::TIMESTAMP)?, U256::from(ts), w)?;
        if hparam != B256::ZERO {
            exp("PREVRANDAO", self.slot(a, ctx_slot::PREVRANDAO)?, U256::from_be_bytes(hparam.0), w)?;
        }
        exp("CHAINID", self.slot(a, ctx_slot::CHAINID)?, U256::from(crate::driver::chain_id()), w)?;
        exp("BASEFEE", self.slot(a, ctx_slot::BASEFEE)?, U256::ZERO, w)?;
        exp("GASPRICE", self.slot(a, ctx_slot::GASPRICE)?, U256::ZERO, w)?;
        exp("COINBASE", self.slot(a, ctx_slot::COINBASE)?, U256::ZERO, w)?;
        let sender = U256::from_be_slice(p.sender.as_slice());
        exp("ORIGIN", self.slot(a, ctx_slot::ORIGIN)?, sender, w)?;
        exp("CALLER", self.slot(a, ctx_slot::CALLER)?, sender, w)?;
        for (i, k) in BH_KS.iter().enumerate() {
            let want = if *k >= 1 && *k <= 256 && *k <= b { U256::from_be_bytes(self.hashes[(b - *k) as usize].0) } else { U256::ZERO };
            let got = self.slot(a, ctx_slot::BLOCKHASH0 + i as u64)?;
            if got != want {
                fail!("C19/context-differs:BLOCKHASH", "{} in block {}: BLOCKHASH({}-{}) = {:#x}, served hash {:#x}", w, b, b, k, got, want);
            }
            if *k >= 255 && *k <= b {
                self.horizon_checks += 1;
            }
        }
        let (ok, size, word) = (self.slot(a, ctx_slot::TXID_OK)?, self.slot(a, ctx_slot::TXID_RETSIZE)?, self.slot(a, ctx_slot::TXID_WORD)?);
        if self.prague {
            if ok != U256::from(2u64) || size != U256::from(33u64) || word != U256::from_be_bytes(p.txid.0) {
                fail!("C19/context-differs:TXID", "{} in block {}: helper answered ok={} size={} word={:#x}, the transaction was supplied with txid {}", w, b, ok, size - U256::from(1u64), word, p.txid);
            }
        } else if size != U256::from(1u64) || word != U256::ZERO {
            fail!("C19/txid-helper-present-before-prague", "{} in block {}: helper returned {} bytes, word {:#x}", w, b, size - U256::from(1u64), word);
        }
        self.checks += 1;
        Ok(())
    }

    /// after finalising a zero-hash block: PREVRANDAO must have been the served hash
    fn verify_zero_hash(&mut self, probe: Address, height: u64, what: &str) -> Result<(), Failure> {
        let got = self.slot(probe, ctx_slot::PREVRANDAO)?;
        let want = U256::from_be_bytes(self.hashes[height as usize].0);
        if got != want {
            fail!("C19/context-differs:PREVRANDAO", "{} in block {} (zero hash supplied): contract saw {:#x}, served block hash {:#x}", what, height, got, want);
        }
        self.zero_hash_checks += 1;
        Ok(())
    }
}

pub fn check(case: &Case) -> CheckResult {
    let mut info = CaseInfo::default();
    let prague = !matches!(crate::driver::network().as_str(), "signet" | "mainnet" | "bitcoin");
    let mut inst = Instance::fresh("c19");
    let r = inst.call("brc20_initialise", json!({"genesis_hash": b256_hex(keccak256(b"c19genesis")), "genesis_timestamp": 9, "genesis_height": 0}));
    if !init_effective(&r) {
        fail!("C19/setup", "{:?}", r);
    }
    let mut s = Sim { inst, hashes: vec![], snaps_probes: vec![], hef: 0, open: None, next_blk: (false, 1234), seq: 0, probes: vec![], prague, checks: 0, drained_checks: 0, horizon_checks: 0, zero_hash_checks: 0 };
    s.learn_hash()?;
    if case.pre_mine > 0 {
        let r = s.inst.call("brc20_mine", json!([case.pre_mine, 77]));
        if !r.is_ok() {
            fail!("C19/setup", "{:?}", r);
        }
        for _ in 0..case.pre_mine {
            s.learn_hash()?;
        }
    }
    let code = evm::build_init(&evm::context_probe(), &Env { contracts: &[], controller: controller() });
    let mut last_zero: Option<(Address, String)> = None;
    let mut deploy = |s: &mut Sim, from: u8, last_zero: &mut Option<(Address, String)>| -> Result<(), Failure> {
        let (mut p, txid) = s.fields();
        p.insert("from_pkscript".into(), json!(PKSCRIPTS[from as usize % 5]));
        p.insert("data".into(), json!(format!("0x{}", hex::encode(&code))));
        let r = s.inst.call("brc20_deploy", Value::Object(p));
        let Some(a) = r.ok().and_then(|v| v["contractAddress"].as_str().and_then(|a| a.parse::<Address>().ok())) else { fail!("C19/probe-deploy-failed", "{:?}", r) };
        s.bump(1);
        s.probes.push(a);
        let pend = Pending { probe: a, sender: pk_addr(from), txid, what: format!("constructor of probe {} (brc20_deploy)", a) };
        s.verify(&pend)?;
        if s.open.unwrap().0 == B256::ZERO {
            *last_zero = Some((a, pend.what));
        }
        Ok(())
    };
    for i in 0..3u8 {
        deploy(&mut s, i, &mut last_zero)?;
    }
    s.finalise()?;
    if let Some((a, w)) = last_zero.take() {
        let h = s.next_height() - 1;
        s.verify_zero_hash(a, h, &w)?;
    }
    for (i, st) in case.steps.iter().enumerate() {
        match st {
            Step::Block(z, ts) => {
                if s.open.is_none() {
                    s.next_blk = (*z, *ts);
                }
            }
            Step::Deploy(from) => deploy(&mut s, *from, &mut last_zero)?,
            Step::Call(pi, from) => {
                let a = s.probes[*pi as usize % s.probes.len()];
                let (mut p, txid) = s.fields();
                p.insert("from_pkscript".into(), json!(PKSCRIPTS[*from as usize % 5]));
                p.insert("contract_address".into(), json!(addr_hex(a)));
                p.insert("data".into(), json!("0x00"));
                let r = s.inst.call("brc20_call", Value::Object(p));
                if r.ok().map(|v| parse_u64(&v["status"]) != Some(1)).unwrap_or(true) {
                    fail!("C19/probe-call-failed", "step {}: {:?}", i, r);
                }
                s.bump(1);
                let pend = Pending { probe: a, sender: pk_addr(*from), txid, what: format!("step {} inscription call by pkscript #{}", i, from) };
                s.verify(&pend)?;
                if s.open.unwrap().0 == B256::ZERO {
                    last_zero = Some((a, pend.what));
                }
            }
            Step::Signed(sg, pi) => {
                let a = s.probes[*pi as usize % s.probes.len()];
                let n = s.inst.call("eth_getTransactionCount", json!([addr_hex(signer_addr(*sg)), "latest"])).ok().and_then(parse_u64).unwrap_or(0);
                let raw = sign_legacy(*sg, Some(crate::driver::chain_id()), n, TxKind::Call(a), vec![0]);
                let (mut p, txid) = s.fields();
                p.insert("raw_tx_data".into(), json!(format!("0x{}", hex::encode(&raw))));
                let r = s.inst.call("brc20_transact", Value::Object(p));
                let cnt = r.ok().and_then(|v| v.as_array().map(|a| a.len())).unwrap_or(0);
                if cnt != 1 {
                    // a waiting successor may have been drained as well; it overwrote nothing of this probe unless it targets it
                    if cnt == 0 {
                        fail!("C19/signed-call-not-executed", "step {}: {:?}", i, r);
                    }
                }
                s.bump(cnt as u64);
                if cnt == 1 {
                    let pend = Pending { probe: a, sender: signer_addr(*sg), txid, what: format!("step {} signed call by signer #{}", i, sg) };
                    s.verify(&pend)?;
                    if s.open.unwrap().0 == B256::ZERO {
                        last_zero = Some((a, pend.what));
                    }
                }
            }
            Step::ParkDrain(sg, pa, pb, gap) => {
                let (a, mut b) = (s.probes[*pa as usize % s.probes.len()], s.probes[*pb as usize % s.probes.len()]);
                if a == b {
                    b = s.probes[(*pb as usize + 1) % s.probes.len()];
                }
                let n = s.inst.call("eth_getTransactionCount", json!([addr_hex(signer_addr(*sg)), "latest"])).ok().and_then(parse_u64).unwrap_or(0);
                // a waiting tx for n+1 may already exist from an earlier step: it is replaced
                let raw_b = sign_legacy(*sg, Some(crate::driver::chain_id()), n + 1, TxKind::Call(b), vec![0, i as u8]);
                let (mut p, txid_b) = s.fields();
                p.insert("raw_tx_data".into(), json!(format!("0x{}", hex::encode(&raw_b))));
                let r = s.inst.call("brc20_transact", Value::Object(p));
                if r.ok().and_then(|v| v.as_array().map(|x| x.len())) != Some(0) {
                    fail!("C19/future-nonce-not-parked", "step {}: {:?}", i, r);
                }
                for _ in 0..*gap {
                    s.finalise()?;
                    s.seq += 1;
                    s.open = None;
                    // empty blocks in between, with their own parameters
                    s.next_blk = (s.seq % 3 == 0, 5000 + s.seq);
                }
                let raw_a = sign_legacy(*sg, Some(crate::driver::chain_id()), n, TxKind::Call(a), vec![0]);
                let (mut p, txid_a) = s.fields();
                p.insert("raw_tx_data".into(), json!(format!("0x{}", hex::encode(&raw_a))));
                let r = s.inst.call("brc20_transact", Value::Object(p));
                let cnt = r.ok().and_then(|v| v.as_array().map(|x| x.len())).unwrap_or(0);
                if cnt < 2 {
                    fail!("C19/parked-tx-not-drained", "step {} gap {}: {:?}", i, gap, r);
                }
                s.bump(cnt as u64);
                s.verify(&Pending { probe: a, sender: signer_addr(*sg), txid: txid_a, what: format!("step {} signed predecessor", i) })?;
                s.verify(&Pending { probe: b, sender: signer_addr(*sg), txid: txid_b, what: format!("step {} parked transaction drained {} blocks later inside another call", i, gap) })?;
                s.drained_checks += 1;
                if s.open.unwrap().0 == B256::ZERO {
                    last_zero = Some((b, format!("step {} drained tx", i)));
                }
            }
            Step::Bridge(dep, to) => {
                let (mut p, _) = s.fields();
                p.remove("inscription_byte_len");
                p.remove("op_return_tx_id");
                p.insert(if *dep { "to_pkscript" } else { "from_pkscript" }.into(), json!(PKSCRIPTS[*to as usize % 5]));
                p.insert("ticker".into(), json!("ordi"));
                p.insert("amount".into(), json!("0x5"));
                let r = s.inst.call(if *dep { "brc20_deposit" } else { "brc20_withdraw" }, Value::Object(p));
                let Resp::Ok(rc) = &r else { fail!("C19/bridge-call-failed", "{:?}", r) };
                s.bump(1);
                if rc["from"].as_str().map(|x| x.to_lowercase()) != Some(addr_hex(indexer_addr())) || rc["to"].as_str().map(|x| x.to_lowercase()) != Some(addr_hex(controller())) {
                    fail!("C19/bridge-call-parties", "step {}: from {} to {}", i, rc["from"], rc["to"]);
                }
                let th = rc["transactionHash"].as_str().unwrap_or("").to_string();
                let tr = s.inst.call("debug_traceTransaction", json!([th]));
                if let Some(t) = tr.ok() {
                    if t["from"].as_str().map(|x| x.to_lowercase()) != Some(addr_hex(indexer_addr())) || t["to"].as_str().map(|x| x.to_lowercase()) != Some(addr_hex(controller())) {
                        fail!("C19/bridge-call-parties", "step {} trace: from {} to {}", i, t["from"], t["to"]);
                    }
                }
                info.class("bridge-call-parties-checked");
            }
            Step::Finalise => {
                if s.open.is_none() {
                    let _ = s.fields();
                }
                let zero = s.open.unwrap().0 == B256::ZERO;
                s.finalise()?;
                if let (true, Some((a, w))) = (zero, last_zero.take()) {
                    let h = s.next_height() - 1;
                    s.verify_zero_hash(a, h, &w)?;
                }
                last_zero = None;
            }
            Step::Mine(n) => {
                s.boundary()?;
                last_zero = None;
                let r = s.inst.call("brc20_mine", json!([*n, 31]));
                if !r.is_ok() {
                    fail!("C19/mine-failed", "{:?}", r);
                }
                for _ in 0..*n {
                    s.learn_hash()?;
                }
            }
            Step::Commit => {
                s.boundary()?;
                last_zero = None;
                let r = s.inst.call("brc20_commitToDatabase", json!([]));
                if !r.is_ok() {
                    fail!("C19/commit-failed", "{:?}", r);
                }
                info.class("commit");
            }
            Step::Reorg(d) => {
                s.boundary()?;
                last_zero = None;
                let h = s.next_height() - 1;
                // keep the block that deployed the first three probes
                let floor = case.pre_mine as u64 + 1;
                let n = h.saturating_sub(*d as u64).max(floor);
                if n < h && s.hef - n <= 10 {
                    let r = s.inst.call("brc20_reorg", json!([n]));
                    if !r.is_ok() {
                        fail!("C19/reorg-refused", "{:?}", r);
                    }
                    s.hashes.truncate(n as usize + 1);
                    let keep = s.snaps_probes[n as usize];
                    s.snaps_probes.truncate(n as usize + 1);
                    s.probes.truncate(keep.max(3));
                    info.class("reorg");
                }
            }
        }
    }
    info.nontrivial = s.checks >= 3;
    info.weight = s.checks.max(1) as u64;
    info.class_if(s.drained_checks > 0, "parked-then-drained");
    info.class_if(s.horizon_checks > 0, "blockhash-at-255-257");
    info.class_if(s.zero_hash_checks > 0, "server-generated-hash-as-randomness");
    info.class(if prague { "prague" } else { "cancun" });
    Ok(info)
}

impl Property for C19 {
    fn id(&self) -> &'static str {
        "C19"
    }
    fn part_network(&self, part: &str) -> Option<&'static str> {
        match part {
            "signet" => Some("signet"),
            "mainnet" => Some("mainnet"),
            _ => None,
        }
    }
    fn run(&self, ctx: &Ctx, ev: &mut Evidence) -> Vec<Found> {
        ev.assumptions.push("the zero transaction id of deposits/withdrawals is not observable through the API (the controller never asks for it): not claimed; their sender/recipient are checked".into());
        let rule = "histories calling a probe contract that stores NUMBER, TIMESTAMP, PREVRANDAO, CHAINID, BASEFEE, GASPRICE, COINBASE, ORIGIN, CALLER, BLOCKHASH(number-k) for k in {0,1,2,255,256,257} and the answer of the txid helper, via inscription deploys/calls, signed calls and parked-then-drained signed calls (own txid), with generated timestamps, explicit and server-generated hashes, 250+ mined blocks in some cases, commits and reorgs; the slots are read back after every transaction and compared with what the harness supplied. Non-trivial = >= 3 verified transactions; evaluations are weighted by verified transactions";
        let a = PartCfg { name: "regtest", rule, cases: ctx.tier.pick(1200, 14_000), max_shrink_iters: ctx.tier.pick(300, 1200) };
        let mut found = explore(ctx, ev, &a, strategy, check);
        let b = PartCfg { name: "signet", rule: "the same on a network where the Cancun rules apply at low heights (signet): the txid helper must be absent (empty return), everything else as above; run in worker processes configured for that network", cases: ctx.tier.pick(700, 8000), max_shrink_iters: ctx.tier.pick(300, 1200) };
        found.extend(explore_net(ctx, ev, &b, Some("signet"), strategy, check));
        let c = PartCfg { name: "mainnet", rule: "the same on mainnet rules (Cancun at low heights, mainnet chain id, transaction hashes of signed transactions derived the pre-RLP way): CHAINID must be the mainnet id, the helper absent", cases: ctx.tier.pick(500, 6000), max_shrink_iters: ctx.tier.pick(300, 1200) };
        found.extend(explore_net(ctx, ev, &c, Some("mainnet"), strategy, check));
        found
    }
    fn replay(&self, _part: &str, case: &Value) -> CheckResult {
        check(&decode_case::<Case>(case)?)
    }
}
