//! One module per listed property.
use serde_json::Value;

use crate::engine::{CheckResult, Ctx, Evidence, Found};

pub mod c01;
pub mod c02;
pub mod c03;
pub mod c04;
pub mod c05;
pub mod c06;
pub mod c07;
pub mod c08;
pub mod c09;
pub mod c10;
pub mod c11;
pub mod c12;
pub mod c13;
pub mod c16;
pub mod c17;
pub mod c18;
pub mod c19;
pub mod c20;
pub mod c14;
pub mod c15;

pub trait Property: Sync {
    fn id(&self) -> &'static str;
    fn level(&self) -> &'static str {
        "exploration"
    }
    /// network the process must be configured with
    fn network(&self) -> &'static str {
        "regtest"
    }
    /// minimum number of distinct non-trivial cases below which a run is inconclusive
    fn nontrivial_floor(&self, _ctx: &Ctx) -> usize {
        2
    }
    /// network a part's cases must be replayed under (None: the property's default)
    fn part_network(&self, _part: &str) -> Option<&'static str> {
        None
    }
    fn run(&self, ctx: &Ctx, ev: &mut Evidence) -> Vec<Found>;
    fn replay(&self, part: &str, case: &Value) -> CheckResult;
}

pub fn all() -> Vec<Box<dyn Property>> {
    vec![Box::new(c01::C01), Box::new(c02::C02), Box::new(c03::C03), Box::new(c04::C04), Box::new(c05::C05), Box::new(c06::C06), Box::new(c07::C07), Box::new(c08::C08), Box::new(c09::C09), Box::new(c10::C10), Box::new(c11::C11), Box::new(c12::C12), Box::new(c13::C13), Box::new(c14::C14), Box::new(c15::C15), Box::new(c16::C16), Box::new(c17::C17), Box::new(c18::C18), Box::new(c19::C19), Box::new(c20::C20)]
}

pub fn get(id: &str) -> Option<Box<dyn Property>> {
    all().into_iter().find(|p| p.id() == id)
}
