//! C18 — eth_getLogs returns exactly the matching logs, in chain order.
use proptest::prelude::*;
use serde::{Deserialize, Serialize};
use serde_json::{json, Value};

use crate::driver::Resp;
use crate::engine::*;
use crate::evm::{self, Act, Prog};
use crate::fail;
use crate::observe::canon;
use crate::ops::*;
use crate::props::Property;

pub struct C18;

#[derive(Clone, Debug, Serialize, Deserialize)]
pub enum Pos {
    Null,
    One(u8),
    Any(Vec<u8>),
}

#[derive(Clone, Debug, Serialize, Deserialize)]
pub enum Range {
    Absent,
    /// from = height - back, to = from + span; fmt 0 decimal, 1 hex, 2 tags where possible
    Span { back: u8, span: u8, fmt: u8 },
    Reversed { back: u8 },
    Latest,
    Earliest { span: u8 },
}

#[derive(Clone, Debug, Serialize, Deserialize)]
pub struct Filter {
    pub range: Range,
    /// None absent, Some(idx): idx into emitters; 0xFFFF = an address that never emitted
    pub address: Option<u16>,
    pub topics: Option<Vec<Pos>>,
}

#[derive(Clone, Debug, Serialize, Deserialize)]
pub struct Case {
    pub ops: Vec<Op>,
    pub filters: Vec<(u16, Filter)>,
}

impl Simplify for Case {
    fn simpler(&self) -> Vec<Self> {
        let mut v = vec![];
        for i in (0..self.filters.len()).rev() {
            if self.filters.len() > 1 {
                let mut f = self.filters.clone();
                f.remove(i);
                v.push(Case { ops: self.ops.clone(), filters: f });
            }
        }
        v.extend(simpler_vec(&self.ops, 1).into_iter().map(|ops| Case { ops, filters: self.filters.clone() }));
        v
    }
}

fn log_prog() -> BoxedStrategy<Prog> {
    let log = (proptest::collection::vec(0u8..6, 0..=4), 0u8..40).prop_map(|(topics, data_len)| Act::Log { topics, data_len });
    let block = (proptest::collection::vec(log.clone(), 1..4), prop::bool::weighted(0.1)).prop_map(|(mut acts, rev)| {
        if rev {
            acts.push(Act::Revert { len: 0 });
        }
        acts
    });
    (proptest::collection::vec(log, 0..2), proptest::collection::vec(block, 2..5)).prop_map(|(ctor, blocks)| Prog { ctor, blocks }).boxed()
}

fn ops_strategy() -> BoxedStrategy<Vec<Op>> {
    let op = prop_oneof![
        4 => (0u8..5, log_prog(), blk()).prop_map(|(from, prog, blk)| Op::Deploy { from, prog, len: Len::Std, blk, b64: false }),
        16 => (0u8..5, any::<u16>(), 0u8..5, blk()).prop_map(|(from, target, sel, blk)| Op::Call { from, target, by_insc: false, sel, arg: 0, len: Len::Std, blk, b64: false }),
        2 => (0u8..3, any::<u16>(), 0u8..5, blk()).prop_map(|(signer, t, sel, blk)| Op::Transact { signer, nonce: NonceSel::Next, payload: Payload::Call(t, sel, 0), len: Len::Std, blk, b64: false, txid: 0 }),
        2 => (0u8..5, 0u8..4, 1u8..4, blk()).prop_map(|(to, tick, amt, blk)| Op::Deposit { to, tick, amt, blk }),
        7 => blk().prop_map(|blk| Op::Finalise { blk }),
        2 => (1u8..4, ts_strategy()).prop_map(|(n, ts)| Op::Mine { n, ts }),
        2 => Just(Op::Commit),
        1 => (0u8..4).prop_map(|depth| Op::Reorg { depth, keep_soft: false }),
    ];
    (first_op(), (0u8..5, log_prog(), blk()), proptest::collection::vec(op, 10..50))
        .prop_map(|(f, (from, prog, blk), mut rest)| {
            rest.insert(0, Op::Deploy { from, prog, len: Len::Std, blk, b64: false });
            rest.insert(0, f);
            rest
        })
        .boxed()
}

fn pos() -> impl Strategy<Value = Pos> {
    prop_oneof![3 => Just(Pos::Null), 4 => (0u8..7).prop_map(Pos::One), 2 => proptest::collection::vec(0u8..7, 1..4).prop_map(Pos::Any)]
}

fn filter() -> impl Strategy<Value = Filter> {
    let range = prop_oneof![
        2 => Just(Range::Absent),
        10 => (0u8..12, 0u8..6, 0u8..3).prop_map(|(back, span, fmt)| Range::Span { back, span, fmt }),
        1 => (0u8..12, 6u8..9, 0u8..3).prop_map(|(back, span, fmt)| Range::Span { back, span, fmt }),
        1 => (1u8..6).prop_map(|back| Range::Reversed { back }),
        1 => Just(Range::Latest),
        1 => (0u8..7).prop_map(|span| Range::Earliest { span }),
    ];
    (range, prop_oneof![2 => Just(None), 4 => any::<u16>().prop_map(Some), 1 => Just(Some(0xFFFFu16))], prop_oneof![2 => Just(None), 5 => proptest::collection::vec(pos(), 0..6).prop_map(Some)])
        .prop_map(|(range, address, topics)| Filter { range, address, topics })
}

fn strategy() -> BoxedStrategy<Case> {
    (ops_strategy(), proptest::collection::vec((any::<u16>(), filter()), 6..24)).prop_map(|(ops, filters)| Case { ops, filters }).boxed()
}

fn topic_hex(i: u8) -> String {
    if i >= 6 {
        b256_hex(alloy::primitives::keccak256(b"never-emitted"))
    } else {
        b256_hex(evm::topic(i))
    }
}

#[derive(Debug, PartialEq)]
enum Expect {
    /// (logs that must be returned, logs that may additionally be returned), in chain order among themselves
    Logs(Vec<Value>, Vec<Value>),
    ErrorOrEmpty,
    Error,
}

fn evaluate(r: &Runner, f: &Filter, emitters: &[String]) -> (Value, Expect) {
    let height = r.model.height().unwrap_or(0);
    let num = |n: u64, fmt: u8| -> Value {
        match fmt % 3 {
            1 => json!(format!("0x{:x}", n)),
            2 if n == height => json!("latest"),
            2 if n == 0 => json!("earliest"),
            _ => json!(n.to_string()),
        }
    };
    let mut obj = serde_json::Map::new();
    let (from, to): (u64, u64) = match &f.range {
        Range::Absent => (height, height),
        Range::Span { back, span, fmt } => {
            let from = height.saturating_sub(*back as u64);
            let to = from + *span as u64;
            obj.insert("fromBlock".into(), num(from, *fmt));
            obj.insert("toBlock".into(), num(to, *fmt));
            (from, to)
        }
        Range::Reversed { back } => {
            let to = height.saturating_sub(*back as u64);
            obj.insert("fromBlock".into(), json!(height.to_string()));
            obj.insert("toBlock".into(), json!(to.to_string()));
            (height, to)
        }
        Range::Latest => {
            obj.insert("fromBlock".into(), json!("latest"));
            obj.insert("toBlock".into(), json!("latest"));
            (height, height)
        }
        Range::Earliest { span } => {
            obj.insert("fromBlock".into(), json!("earliest"));
            obj.insert("toBlock".into(), json!((*span as u64).to_string()));
            (0, *span as u64)
        }
    };
    let addr: Option<String> = f.address.map(|i| {
        if i == 0xFFFF || emitters.is_empty() {
            addr_hex(evm::eoa(2))
        } else {
            emitters[(i as usize * emitters.len()) >> 16].clone()
        }
    });
    if let Some(a) = &addr {
        obj.insert("address".into(), json!(a));
    }
    if let Some(ts) = &f.topics {
        let v: Vec<Value> = ts
            .iter()
            .map(|p| match p {
                Pos::Null => Value::Null,
                Pos::One(i) => json!(topic_hex(*i)),
                Pos::Any(l) => json!(l.iter().map(|i| topic_hex(*i)).collect::<Vec<_>>()),
            })
            .collect();
        obj.insert("topics".into(), Value::Array(v));
    }
    let filter_json = Value::Object(obj);
    if to < from {
        return (filter_json, Expect::ErrorOrEmpty);
    }
    if to - from > 5 {
        return (filter_json, Expect::Error);
    }
    let mut must = vec![];
    let mut may = vec![];
    for h in from..=to.min(height) {
        let Some(b) = r.model.blocks.get(h as usize) else { continue };
        let receipts: Vec<Value> = if b.is_init { r.init_receipt.clone().into_iter().collect() } else { b.receipts.iter().map(|x| x.0.clone()).collect() };
        for rc in receipts {
            for l in rc["logs"].as_array().cloned().unwrap_or_default() {
                if let Some(a) = &addr {
                    if l["address"].as_str().map(|s| s.to_lowercase()) != Some(a.clone()) {
                        continue;
                    }
                }
                let lt: Vec<String> = l["topics"].as_array().map(|t| t.iter().filter_map(|x| x.as_str().map(String::from)).collect()).unwrap_or_default();
                let mut matched = true;
                let mut beyond_null = false;
                if let Some(ts) = &f.topics {
                    for (i, p) in ts.iter().enumerate() {
                        match p {
                            Pos::Null => {
                                if i >= lt.len() {
                                    beyond_null = true; // clients differ on a wildcard beyond the log's topics
                                }
                            }
                            Pos::One(t) => {
                                if lt.get(i) != Some(&topic_hex(*t)) {
                                    matched = false;
                                }
                            }
                            Pos::Any(list) => {
                                if !lt.get(i).map(|x| list.iter().any(|t| topic_hex(*t) == *x)).unwrap_or(false) {
                                    matched = false;
                                }
                            }
                        }
                    }
                }
                if matched {
                    if beyond_null {
                        may.push(canon(&l));
                    } else {
                        must.push(canon(&l));
                    }
                }
            }
        }
    }
    (filter_json, Expect::Logs(must, may))
}

pub fn check(case: &Case) -> CheckResult {
    let mut info = CaseInfo::default();
    let mut r = Runner::new("c18");
    let n = case.ops.len().max(1);
    let mut rich = 0;
    for (i, op) in case.ops.iter().enumerate() {
        r.apply(i, op);
        if let Some(p) = r.events.last().filter(|e| e.resp.is_panic()) {
            fail!("C18/panic", "op {} {}: {:?}", i, p.req.method, p.resp);
        }
        let last = i + 1 == case.ops.len();
        if last {
            r.to_boundary();
        }
        if !r.at_boundary() || r.model.blocks.is_empty() {
            continue;
        }
        if r.init_receipt.is_none() && r.model.blocks[0].is_init {
            r.init_receipt = r.inst.call("brc20_getTxReceiptByInscriptionId", json!(["BRC20_CONTROLLER_INIT"])).ok().cloned().filter(|v| !v.is_null());
        }
        let mut emitters: Vec<String> = r.contracts.iter().map(|a| addr_hex(*a)).collect();
        emitters.push(addr_hex(controller()));
        for (pos, f) in &case.filters {
            if pick_idx(*pos, n) != i && !(last && pick_idx(*pos, n) > i) {
                continue;
            }
            let (fj, expect) = evaluate(&r, f, &emitters);
            let resp = r.inst.call("eth_getLogs", json!([fj]));
            let committed = r.model.committed >= r.model.blocks.len();
            match (&expect, &resp) {
                (_, Resp::Panic(m)) => fail!("C18/panic", "after op {} filter {}: {}", i, fj, m),
                (Expect::Error, Resp::Ok(v)) => fail!("C18/too-wide-range-accepted", "after op {} filter {}: {} logs", i, fj, v.as_array().map(|a| a.len()).unwrap_or(0)),
                (Expect::Error, Resp::Err { .. }) => info.class("too-wide-refused"),
                (Expect::ErrorOrEmpty, Resp::Ok(v)) => {
                    if v.as_array().map(|a| !a.is_empty()).unwrap_or(true) {
                        fail!("C18/reversed-range-returned-logs", "after op {} filter {}: {}", i, fj, crate::observe::short(v));
                    }
                }
                (Expect::ErrorOrEmpty, Resp::Err { .. }) => info.class("reversed-refused"),
                (Expect::Logs(..), Resp::Err { message, .. }) => fail!("C18/valid-filter-refused", "after op {} filter {}: {}", i, fj, message),
                (Expect::Logs(must, may), Resp::Ok(v)) => {
                    let got: Vec<Value> = v.as_array().cloned().unwrap_or_default().iter().map(canon).collect();
                    // every returned log must be expected (must or may), each once, in chain order
                    let key = |l: &Value| (parse_u64(&l["blockNumber"]).unwrap_or(0), parse_u64(&l["transactionIndex"]).unwrap_or(0), parse_u64(&l["logIndex"]).unwrap_or(0));
                    let mut all: Vec<Value> = must.iter().chain(may.iter()).cloned().collect();
                    all.sort_by_key(key);
                    let state = if committed { "committed" } else { "uncommitted" };
                    for g in &got {
                        if !all.contains(g) {
                            fail!(format!("C18/returned-a-log-that-does-not-match:{}", state), "after op {} filter {}: {}", i, fj, crate::observe::short(g));
                        }
                    }
                    for m in must {
                        let c = got.iter().filter(|g| *g == m).count();
                        if c != 1 {
                            fail!(format!("C18/matching-log-returned-{}-times:{}", c, state), "after op {} filter {}: {} (returned {} logs, expected {} + up to {} optional)", i, fj, crate::observe::short(m), got.len(), must.len(), may.len());
                        }
                    }
                    let keys: Vec<_> = got.iter().map(key).collect();
                    let mut sorted = keys.clone();
                    sorted.sort();
                    sorted.dedup();
                    if keys != sorted {
                        fail!(format!("C18/logs-out-of-chain-order:{}", state), "after op {} filter {}: order {:?}", i, fj, keys);
                    }
                    let txs: std::collections::BTreeSet<_> = must.iter().map(|l| l["transactionHash"].to_string()).collect();
                    if must.len() >= 2 && txs.len() >= 2 {
                        rich += 1;
                        info.class(if committed { "rich-filter-on-committed-blocks" } else { "rich-filter-on-uncommitted-blocks" });
                    }
                    info.class_if(!may.is_empty(), "null-beyond-topic-count");
                    info.class_if(f.address.is_some(), "address-filter");
                    info.class_if(f.topics.as_ref().map(|t| t.iter().any(|p| matches!(p, Pos::Any(_)))).unwrap_or(false), "alternatives");
                }
            }
        }
    }
    info.nontrivial = rich > 0;
    Ok(info)
}

impl Property for C18 {
    fn id(&self) -> &'static str {
        "C18"
    }
    fn run(&self, ctx: &Ctx, ev: &mut Evidence) -> Vec<Found> {
        ev.assumptions.push("three-valued only where the property is silent: a null beyond a log's topic count may or may not match; a reversed range may be empty or an error; filters carry both range ends or none; no null inside an alternatives list, no empty list".into());
        let cfg = PartCfg {
            name: "filters",
            rule: "generated histories whose contracts emit 0-4-topic logs from a pool of 6 topics (several per transaction, several transactions per block, reverted emissions, committed and uncommitted, reorgs) and 6-23 generated filters per history (ranges: absent/decimal/hex/latest/earliest/single/<=6/7+/reversed; address absent/emitter/other; 0-5 topic positions each null/value/1-3 alternatives) evaluated at generated boundaries and at the end against a reference filter over the receipts the harness collected, compared as an ordered list. Non-trivial = a filter with >= 2 matching logs from >= 2 transactions",
            cases: ctx.tier.pick(3000, 40_000),
            max_shrink_iters: ctx.tier.pick(300, 1200),
        };
        explore(ctx, ev, &cfg, strategy, check)
    }
    fn replay(&self, _part: &str, case: &Value) -> CheckResult {
        check(&decode_case::<Case>(case)?)
    }
}
