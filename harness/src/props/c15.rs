//! C15 — inscription payload decoding is lossless, bounded and encoding-independent.
use alloy::primitives::Bytes;
use base64::prelude::{BASE64_STANDARD_NO_PAD, Engine};
use brc20_prog::types::Base64Bytes;
use brc20_prog::verif::{base64_value, CALLDATA_LIMIT};
use proptest::prelude::*;
use serde::{Deserialize, Serialize};
use serde_json::Value;

use crate::driver::take_last_panic;
use crate::engine::*;
use crate::fail;
use crate::observe::{canon_resp, observe};
use crate::ops::*;
use crate::props::Property;

pub struct C15;

#[derive(Clone, Debug, Serialize, Deserialize)]
pub enum Fill {
    Zeros,
    Ones,
    Random,
    /// random bytes, but never 0x00 / 0xFF (the bytes nada escapes)
    RandomNoEsc,
    ZeroHeavy,
    Repeat(Vec<u8>),
}

#[derive(Clone, Debug, Serialize, Deserialize)]
pub struct Data {
    pub fill: Fill,
    pub len: usize,
    pub seed: u64,
}

impl Data {
    pub fn bytes(&self) -> Vec<u8> {
        let mut x = self.seed | 1;
        let mut next = move || {
            x ^= x << 13;
            x ^= x >> 7;
            x ^= x << 17;
            x
        };
        (0..self.len)
            .map(|i| match &self.fill {
                Fill::Zeros => 0,
                Fill::Ones => 0xff,
                Fill::Random => (next() >> 24) as u8,
                Fill::RandomNoEsc => 1 + ((next() >> 24) % 254) as u8,
                Fill::ZeroHeavy => {
                    let r = next();
                    if r % 16 == 0 {
                        (r >> 24) as u8
                    } else {
                        0
                    }
                }
                Fill::Repeat(p) => {
                    if p.is_empty() {
                        7
                    } else {
                        p[i % p.len()]
                    }
                }
            })
            .collect()
    }
}

#[derive(Clone, Debug, Serialize, Deserialize)]
pub enum Case {
    /// published encoder, `pad` trailing '='
    Encoder(Data, u8),
    /// hand-packed: prefix byte 0 raw / 1 nada / 2 zstd(level) / other, `pad` trailing '='
    Hand(u8, Data, u8, i32),
    /// 0: zstd of n MiB zeros; 1: two concatenated frames; 2: frame without content size; 3: nada zero-run flood; 4: nada 0xFF flood
    Bomb(u8, u8),
    /// arbitrary text
    Text(String),
    /// arbitrary bytes, base64 encoded (first byte acts as the prefix)
    RawB64(Vec<u8>, u8),
}

impl Simplify for Case {}

fn len_strategy() -> impl Strategy<Value = usize> {
    let l = CALLDATA_LIMIT;
    prop_oneof![
        6 => 0usize..300,
        3 => 300usize..5000,
        1 => 5000usize..200_000,
        1 => (l - 300)..=l,
        1 => Just(l),
        1 => Just(l - 1),
    ]
}

fn big_len_strategy() -> impl Strategy<Value = usize> {
    let l = CALLDATA_LIMIT;
    prop_oneof![2 => (l - 300)..=(l + 40), 1 => Just(l), 1 => Just(l - 1), 1 => Just(l + 1), 1 => (l / 2)..l]
}

fn fill() -> impl Strategy<Value = Fill> {
    prop_oneof![
        2 => Just(Fill::Zeros), 1 => Just(Fill::Ones), 3 => Just(Fill::Random), 2 => Just(Fill::RandomNoEsc), 2 => Just(Fill::ZeroHeavy),
        2 => proptest::collection::vec(any::<u8>(), 1..9).prop_map(Fill::Repeat),
    ]
}

fn data(len: impl Strategy<Value = usize>) -> impl Strategy<Value = Data> {
    (fill(), len, any::<u64>()).prop_map(|(fill, len, seed)| Data { fill, len, seed })
}

fn small_strategy() -> BoxedStrategy<Case> {
    prop_oneof![
        6 => (data(0usize..3000), 0u8..7).prop_map(|(d, p)| Case::Encoder(d, p)),
        6 => (prop_oneof![4 => 0u8..3, 1 => any::<u8>()], data(0usize..3000), 0u8..7, 1i32..6).prop_map(|(pre, d, p, lvl)| Case::Hand(pre, d, p, lvl)),
        2 => prop_oneof![Just(String::new()), Just("=".to_string()), Just("====".to_string()), "[A-Za-z0-9+/=]{0,40}", "\\PC{0,20}", Just("AA".to_string()), Just("Ag".to_string()), Just("AQ".to_string())].prop_map(Case::Text),
        3 => (proptest::collection::vec(any::<u8>(), 0..200), 0u8..4).prop_map(|(b, p)| Case::RawB64(b, p)),
    ]
    .boxed()
}

fn large_strategy() -> BoxedStrategy<Case> {
    prop_oneof![
        4 => (data(len_strategy()), 0u8..3).prop_map(|(d, p)| Case::Encoder(d, p)),
        4 => (data(big_len_strategy()), 0u8..3).prop_map(|(d, p)| Case::Encoder(d, p)),
        5 => (0u8..3, data(big_len_strategy()), 0u8..3, 1i32..4).prop_map(|(pre, d, p, lvl)| Case::Hand(pre, d, p, lvl)),
        3 => (0u8..5, prop_oneof![Just(2u8), Just(3), Just(16), Just(64)]).prop_map(|(k, n)| Case::Bomb(k, n)),
    ]
    .boxed()
}

fn b64(bytes: &[u8], pad: u8) -> String {
    let mut s = BASE64_STANDARD_NO_PAD.encode(bytes);
    for _ in 0..pad {
        s.push('=');
    }
    s
}

fn decode(s: &str) -> Result<Option<Bytes>, Failure> {
    let b = Base64Bytes::new(s.to_string());
    match std::panic::catch_unwind(|| base64_value(&b)) {
        Ok(v) => Ok(v),
        Err(_) => Err(Failure::new("C15/decoder-panicked", format!("input {:?} ({} chars): {}", &s[..s.len().min(60)], s.len(), take_last_panic().unwrap_or_default()))),
    }
}

fn zstd(bytes: &[u8], level: i32) -> Option<Vec<u8>> {
    let mut out = vec![0u8; zstd_safe::compress_bound(bytes.len())];
    let n = zstd_safe::compress(&mut out[..], bytes, level).ok()?;
    out.truncate(n);
    Some(out)
}

fn zstd_no_size(bytes: &[u8]) -> Option<Vec<u8>> {
    let mut cctx = zstd_safe::CCtx::create();
    cctx.set_parameter(zstd_safe::CParameter::ContentSizeFlag(false)).ok()?;
    cctx.set_parameter(zstd_safe::CParameter::CompressionLevel(3)).ok()?;
    let mut out = vec![0u8; zstd_safe::compress_bound(bytes.len())];
    let n = cctx.compress2(&mut out[..], bytes).ok()?;
    out.truncate(n);
    Some(out)
}

pub fn check(case: &Case) -> CheckResult {
    let mut info = CaseInfo::default();
    let limit = CALLDATA_LIMIT;
    match case {
        Case::Encoder(d, pad) => {
            let bytes = d.bytes();
            let enc = match std::panic::catch_unwind(|| Base64Bytes::from_bytes(Bytes::from(bytes.clone()))) {
                Ok(e) => e,
                Err(_) => fail!("C15/encoder-panicked", "{} bytes: {}", bytes.len(), take_last_panic().unwrap_or_default()),
            };
            info.class("published-encoder");
            match enc {
                Err(_) => info.class("encoder-refused"),
                Ok(e) => {
                    let mut s = e.to_string();
                    let prefix = BASE64_STANDARD_NO_PAD.decode(&s).ok().and_then(|v| v.first().cloned());
                    info.class(match prefix {
                        Some(0) => "chose-raw",
                        Some(1) => "chose-nada",
                        Some(2) => "chose-zstd",
                        _ => "chose-?",
                    });
                    for _ in 0..*pad {
                        s.push('=');
                    }
                    let got = decode(&s)?;
                    if bytes.len() <= limit {
                        if got.as_ref().map(|g| g.as_ref()) != Some(&bytes[..]) {
                            fail!(
                                format!("C15/roundtrip-differs:prefix{}", prefix.unwrap_or(255)),
                                "{} bytes ({:?}, seed {}), {} padding chars: decoded {:?} bytes",
                                bytes.len(), d.fill, d.seed, pad, got.map(|g| g.len())
                            );
                        }
                    } else if let Some(g) = got {
                        if g.len() > limit {
                            fail!("C15/decoded-more-than-limit", "{} bytes decoded", g.len());
                        }
                    }
                    info.class_if(*pad > 0, "with-padding");
                }
            }
            info.nontrivial = bytes.len() > 1024;
            info.class_if(bytes.len() + 300 >= limit, "within-300-of-limit");
        }
        Case::Hand(prefix, d, pad, level) => {
            let bytes = d.bytes();
            let body = match prefix {
                0 => Some(bytes.clone()),
                1 => Some(nada::encode(bytes.clone())),
                2 => zstd(&bytes, *level),
                _ => Some(bytes.clone()),
            };
            let Some(body) = body else { return Ok(info) };
            let mut packed = vec![*prefix];
            packed.extend_from_slice(&body);
            let got = decode(&b64(&packed, *pad))?;
            info.class(match prefix {
                0 => "hand-raw",
                1 => "hand-nada",
                2 => "hand-zstd",
                _ => "hand-unknown-prefix",
            });
            match got {
                None => info.class("rejected"),
                Some(g) => {
                    if g.len() > limit {
                        fail!("C15/decoded-more-than-limit", "prefix {}: {} bytes decoded from {} packed bytes", prefix, g.len(), packed.len());
                    }
                    if *prefix > 2 {
                        fail!("C15/unknown-prefix-accepted", "prefix {} decoded to {} bytes", prefix, g.len());
                    }
                    if g.as_ref() != &bytes[..] {
                        fail!(format!("C15/hand-packed-decodes-to-different-bytes:prefix{}", prefix), "{} bytes in, {} bytes out", bytes.len(), g.len());
                    }
                }
            }
            info.nontrivial = bytes.len() > 1024;
            info.class_if(bytes.len() + 300 >= limit && bytes.len() <= limit, "within-300-of-limit");
            info.class_if(bytes.len() > limit, "beyond-limit");
        }
        Case::Bomb(kind, mib) => {
            let n = *mib as usize * 1024 * 1024;
            let packed: Vec<u8> = match kind {
                0 => [vec![2u8], zstd(&vec![0u8; n], 3).unwrap_or_default()].concat(),
                1 => {
                    let f = zstd(&vec![0u8; 600 * 1024], 3).unwrap_or_default();
                    [vec![2u8], f.clone(), f].concat()
                }
                2 => [vec![2u8], zstd_no_size(&vec![7u8; n]).unwrap_or_default()].concat(),
                3 => {
                    let mut v = vec![1u8];
                    for _ in 0..(n / 255 + 1) {
                        v.extend_from_slice(&[0xFF, 255]);
                    }
                    v
                }
                _ => [vec![1u8], nada::encode(vec![0xFFu8; n / 8])].concat(),
            };
            let got = decode(&b64(&packed, 0))?;
            if let Some(g) = got {
                if g.len() > limit {
                    fail!("C15/decoded-more-than-limit", "bomb kind {} ({} MiB): {} bytes decoded from {} packed bytes", kind, mib, g.len(), packed.len());
                }
            }
            info.class(&format!("bomb-kind-{}", kind));
            info.nontrivial = true;
        }
        Case::Text(s) => {
            if let Some(g) = decode(s)? {
                if g.len() > limit {
                    fail!("C15/decoded-more-than-limit", "{} bytes", g.len());
                }
            }
            info.class("arbitrary-text");
            info.class_if(s.trim_end_matches('=').is_empty(), "empty-or-padding-only");
        }
        Case::RawB64(bytes, pad) => {
            if let Some(g) = decode(&b64(bytes, *pad))? {
                if g.len() > limit {
                    fail!("C15/decoded-more-than-limit", "{} bytes", g.len());
                }
                if bytes.first() == Some(&0) && g.as_ref() != &bytes[1..] {
                    fail!("C15/hand-packed-decodes-to-different-bytes:prefix0", "{} bytes in", bytes.len());
                }
            }
            info.class("arbitrary-bytes");
        }
    }
    Ok(info)
}

// ---- submission equivalence: hex field vs base64 field

#[derive(Clone, Debug, Serialize, Deserialize)]
pub struct SubmitCase {
    pub ops: Vec<Op>,
}

impl Simplify for SubmitCase {
    fn simpler(&self) -> Vec<Self> {
        simpler_vec(&self.ops, 1).into_iter().map(|ops| SubmitCase { ops }).collect()
    }
}

fn submit_strategy() -> BoxedStrategy<SubmitCase> {
    let mut c = HistCfg::general().no_persistence_events();
    c.w_bridge = 1;
    c.w_mine = 1;
    c.min_ops = 6;
    c.max_ops = 30;
    history_strategy(c).prop_map(|ops| SubmitCase { ops }).boxed()
}

fn force_encoding(ops: &[Op], b: bool) -> Vec<Op> {
    ops.iter()
        .cloned()
        .map(|mut op| {
            match &mut op {
                Op::Deploy { b64, .. } | Op::Call { b64, .. } | Op::Transact { b64, .. } => *b64 = b,
                _ => {}
            }
            op
        })
        .collect()
}

fn strip_encoding(v: &Value) -> Value {
    // requests differ exactly in which of the two fields carries the bytes
    let mut v = v.clone();
    if let Some(m) = v.as_object_mut() {
        for k in ["data", "base64_data", "raw_tx_data", "base64_raw_tx_data"] {
            m.remove(k);
        }
    }
    v
}

pub fn check_submit(case: &SubmitCase) -> CheckResult {
    let mut info = CaseInfo::default();
    let mut a = Runner::new("c15a");
    let mut b = Runner::new("c15b");
    let (oa, ob) = (force_encoding(&case.ops, false), force_encoding(&case.ops, true));
    let mut payload_txs = 0;
    for i in 0..oa.len() {
        let (fa, fb) = (a.events.len(), b.events.len());
        a.apply(i, &oa[i]);
        b.apply(i, &ob[i]);
        let (ea, eb) = (&a.events[fa..], &b.events[fb..]);
        if ea.len() != eb.len() {
            fail!("C15/call-sequence-diverged", "op {}", i);
        }
        for (x, y) in ea.iter().zip(eb.iter()) {
            if x.req.method != y.req.method || strip_encoding(&x.req.params) != strip_encoding(&y.req.params) {
                fail!("C15/call-sequence-diverged", "op {}: {} {} vs {} {}", i, x.req.method, x.req.params, y.req.method, y.req.params);
            }
            let used_b64 = y.req.params.get("base64_data").is_some() || y.req.params.get("base64_raw_tx_data").is_some();
            if used_b64 {
                payload_txs += 1;
            }
            let (rx, ry) = (canon_resp(&x.resp), canon_resp(&y.resp));
            if rx != ry {
                fail!(format!("C15/hex-and-base64-submission-differ:{}", x.req.method), "op {}: {}", i, crate::observe::json_diff(&rx, &ry, "").unwrap_or_default());
            }
        }
    }
    a.to_boundary();
    b.to_boundary();
    let (xa, xb) = (observe(&mut a.inst, &a.uni), observe(&mut b.inst, &a.uni));
    crate::props::c01::differs(&xa, &xb, "C15/submit", "at the end")?;
    info.nontrivial = payload_txs >= 2;
    info.class_if(a.stats.parked > 0, "parked-signed-tx");
    Ok(info)
}

impl Property for C15 {
    fn id(&self) -> &'static str {
        "C15"
    }
    fn run(&self, ctx: &Ctx, ev: &mut Evidence) -> Vec<Found> {
        ev.assumptions.push("'published encoder' = Base64Bytes::from_bytes of this tree; the hand-packers use zstd_safe / nada directly".into());
        let small = PartCfg {
            name: "small",
            rule: "payloads of 0..3000 bytes (zeros, 0xFF, random, random without escape bytes, zero-heavy, repetitive) packed with the published encoder or by hand with every prefix, 0-6 trailing '='; arbitrary text and arbitrary base64 bytes: decode == original where the encoder succeeded, never more than the limit, never different bytes, never a panic. Non-trivial = payload > 1 KiB",
            cases: ctx.tier.pick(40_000, 1_000_000),
            max_shrink_iters: 2000,
        };
        let mut found = explore(ctx, ev, &small, small_strategy, check);
        let large = PartCfg {
            name: "large",
            rule: "payloads up to and beyond the 1 MiB limit with a dense band limit-300..limit+40, both packers, plus decompression bombs (zstd of 2-64 MiB, concatenated frames, frames without content size, nada run floods). Non-trivial = payload > 1 KiB, within 300 bytes of the limit, or a bomb",
            cases: ctx.tier.pick(96, 2400),
            max_shrink_iters: 40,
        };
        found.extend(explore(ctx, ev, &large, large_strategy, check));
        let submit = PartCfg {
            name: "submit",
            rule: "a generated history is run on twin instances, once with every deploy/call/transact payload in the hex field and once in the base64 field (published encoder): every response and the final observation must be identical. Non-trivial = >= 2 payload-carrying calls",
            cases: ctx.tier.pick(400, 5000),
            max_shrink_iters: ctx.tier.pick(200, 800),
        };
        found.extend(explore(ctx, ev, &submit, submit_strategy, check_submit));
        found
    }
    fn replay(&self, part: &str, case: &Value) -> CheckResult {
        if part == "submit" {
            check_submit(&decode_case::<SubmitCase>(case)?)
        } else {
            check(&decode_case::<Case>(case)?)
        }
    }
}
