//! C14 — the storage encoding is lossless, self-delimiting and order-preserving; JSON is stable.
use std::fmt::Debug;

use alloy::primitives::{Address, Bytes, FixedBytes, Uint, B256, U256};
use brc20_prog::verif::*;
use either::Either;
use proptest::prelude::*;
use serde::de::DeserializeOwned;
use serde::{Deserialize, Serialize};
use serde_json::Value;

use crate::driver::take_last_panic;
use crate::engine::*;
use crate::fail;
use crate::props::Property;

pub struct C14;

// plain descriptions of values (what a replay file stores)
#[derive(Clone, Debug, Serialize, Deserialize, PartialEq)]
pub struct LogD {
    addr: [u8; 20],
    topics: Vec<[u8; 32]>,
    data: Vec<u8>,
    tx_index: u64,
    tx_hash: [u8; 32],
    block_hash: [u8; 32],
    block_number: u64,
    log_index: u64,
}

#[derive(Clone, Debug, Serialize, Deserialize, PartialEq)]
pub struct TxD {
    hash: [u8; 32],
    nonce: u64,
    block_hash: [u8; 32],
    block_number: Option<u64>,
    tx_index: Option<u64>,
    from: [u8; 20],
    to: Option<[u8; 20]>,
    value: u64,
    gas: u64,
    gas_price: u64,
    input: Vec<u8>,
    v: u8,
    r: [u8; 32],
    s: [u8; 32],
    insc: Option<String>,
}

#[derive(Clone, Debug, Serialize, Deserialize, PartialEq)]
pub struct ReceiptD {
    status: u8,
    logs: Vec<LogD>,
    gas_used: u64,
    from: [u8; 20],
    to: Option<[u8; 20]>,
    contract: Option<[u8; 20]>,
    bloom: Vec<u8>,
    block_hash: [u8; 32],
    block_number: u64,
    tx_hash: [u8; 32],
    tx_index: u64,
    cumulative: u64,
}

#[derive(Clone, Debug, Serialize, Deserialize, PartialEq)]
pub struct BlockD {
    gas_used: u64,
    hash: [u8; 32],
    bloom: Vec<u8>,
    nonce: u64,
    number: u64,
    timestamp: u64,
    mine_ts: u128,
    txs: Vec<[u8; 32]>,
    root: [u8; 32],
    parent: [u8; 32],
}

#[derive(Clone, Debug, Serialize, Deserialize, PartialEq)]
pub struct TraceD {
    ty: String,
    from: [u8; 20],
    to: Option<[u8; 20]>,
    calls: Vec<TraceD>,
    gas: [u8; 32],
    gas_used: [u8; 32],
    input: Vec<u8>,
    output: Vec<u8>,
    value: [u8; 32],
    error: Option<String>,
    revert: Option<String>,
}

#[derive(Clone, Debug, Serialize, Deserialize, PartialEq)]
pub enum V {
    U8(u8),
    U64(u64),
    U128(u128),
    U256([u8; 32]),
    U512(Vec<u8>),
    Addr([u8; 20]),
    B256([u8; 32]),
    B2048(Vec<u8>),
    Bytes(Vec<u8>),
    Bytecode(Vec<u8>),
    Account([u8; 32], u64, [u8; 32]),
    Log(LogD),
    Tx(TxD),
    Receipt(ReceiptD),
    Block(BlockD),
    Raw(BlockD, Vec<TxD>, Vec<ReceiptD>),
    Trace(TraceD),
    Str(String),
    OptU64(Option<u64>),
    VecB256(Vec<[u8; 32]>),
    PairAddrNonce([u8; 20], u64),
    HistU64(Vec<(u64, Option<u64>)>),
    HistTx(Vec<(u64, Option<TxD>)>),
}

#[derive(Clone, Debug, Serialize, Deserialize)]
pub struct Case {
    pub a: V,
    pub b: V,
}

impl Simplify for Case {}

// ---- strategies

fn bint() -> impl Strategy<Value = u64> {
    prop_oneof![
        2 => Just(0u64), 2 => Just(1), 1 => Just(255), 1 => Just(256), 1 => Just(65535), 1 => Just(65536),
        1 => Just(u32::MAX as u64), 1 => Just(1u64 << 32), 1 => Just(u64::MAX - 1), 2 => Just(u64::MAX), 4 => any::<u64>(),
        2 => (0u32..64).prop_map(|s| 1u64 << s), 2 => (0u32..64).prop_map(|s| (1u64 << s).wrapping_sub(1)),
    ]
}
fn b32() -> impl Strategy<Value = [u8; 32]> {
    prop_oneof![
        1 => Just([0u8; 32]), 1 => Just([0xffu8; 32]),
        2 => bint().prop_map(|x| { let mut b = [0u8; 32]; b[24..].copy_from_slice(&x.to_be_bytes()); b }),
        2 => bint().prop_map(|x| { let mut b = [0u8; 32]; b[..8].copy_from_slice(&x.to_be_bytes()); b }),
        4 => any::<[u8; 32]>(),
    ]
}
fn b20() -> impl Strategy<Value = [u8; 20]> {
    prop_oneof![1 => Just([0u8; 20]), 1 => Just([0xffu8; 20]), 1 => (0u8..=255).prop_map(|x| [x; 20]), 4 => any::<[u8; 20]>()]
}
fn bytes(max: usize) -> impl Strategy<Value = Vec<u8>> {
    prop_oneof![2 => Just(vec![]), 1 => Just(vec![0u8]), 6 => proptest::collection::vec(any::<u8>(), 0..max), 1 => proptest::collection::vec(Just(0xffu8), 0..max)]
}
fn fixed(n: usize) -> impl Strategy<Value = Vec<u8>> {
    prop_oneof![1 => Just(vec![0u8; n]), 1 => Just(vec![0xffu8; n]), 3 => proptest::collection::vec(any::<u8>(), n..=n)]
}
fn text() -> impl Strategy<Value = String> {
    prop_oneof![1 => Just(String::new()), 3 => "[ -~]{0,40}", 1 => "\\PC{0,12}", 1 => Just("CALL".to_string()), 1 => Just("create".to_string())]
}
fn log_d() -> impl Strategy<Value = LogD> {
    (b20(), proptest::collection::vec(b32(), 0..=4), bytes(80), bint(), b32(), b32(), bint(), bint())
        .prop_map(|(addr, topics, data, tx_index, tx_hash, block_hash, block_number, log_index)| LogD { addr, topics, data, tx_index, tx_hash, block_hash, block_number, log_index })
}
fn tx_d() -> impl Strategy<Value = TxD> {
    (
        (b32(), bint(), b32(), proptest::option::of(bint()), proptest::option::of(bint()), b20(), proptest::option::of(b20())),
        (bint(), bint(), bint(), bytes(120), any::<u8>(), b32(), b32(), proptest::option::of(text())),
    )
        .prop_map(|((hash, nonce, block_hash, block_number, tx_index, from, to), (value, gas, gas_price, input, v, r, s, insc))| TxD {
            hash, nonce, block_hash, block_number, tx_index, from, to, value, gas, gas_price, input, v, r, s, insc,
        })
}
fn receipt_d() -> impl Strategy<Value = ReceiptD> {
    (
        (0u8..=1, proptest::collection::vec(log_d(), 0..4), bint(), b20(), proptest::option::of(b20()), proptest::option::of(b20())),
        (fixed(256), b32(), bint(), b32(), bint(), bint()),
    )
        .prop_map(|((status, logs, gas_used, from, to, contract), (bloom, block_hash, block_number, tx_hash, tx_index, cumulative))| ReceiptD {
            status, logs, gas_used, from, to, contract, bloom, block_hash, block_number, tx_hash, tx_index, cumulative,
        })
}
fn block_d() -> impl Strategy<Value = BlockD> {
    (bint(), b32(), fixed(256), bint(), bint(), bint(), any::<u128>(), proptest::collection::vec(b32(), 0..5), b32(), b32())
        .prop_map(|(gas_used, hash, bloom, nonce, number, timestamp, mine_ts, txs, root, parent)| BlockD { gas_used, hash, bloom, nonce, number, timestamp, mine_ts, txs, root, parent })
}
fn trace_d() -> impl Strategy<Value = TraceD> {
    let leaf = (text(), b20(), proptest::option::of(b20()), b32(), b32(), bytes(60), bytes(60), b32(), proptest::option::of(text()), proptest::option::of(text()))
        .prop_map(|(ty, from, to, gas, gas_used, input, output, value, error, revert)| TraceD { ty, from, to, calls: vec![], gas, gas_used, input, output, value, error, revert });
    leaf.prop_recursive(4, 24, 3, |inner| {
        (inner.clone(), proptest::collection::vec(inner, 0..3)).prop_map(|(mut t, calls)| {
            t.calls = calls;
            t
        })
    })
}

fn v_strategy() -> BoxedStrategy<V> {
    prop_oneof![
        1 => any::<u8>().prop_map(V::U8),
        2 => bint().prop_map(V::U64),
        2 => prop_oneof![bint().prop_map(|x| x as u128), (bint(), bint()).prop_map(|(a, b)| ((a as u128) << 64) | b as u128)].prop_map(V::U128),
        2 => b32().prop_map(V::U256),
        2 => (b32(), b32()).prop_map(|(a, b)| V::U512([a.to_vec(), b.to_vec()].concat())),
        2 => b20().prop_map(V::Addr),
        1 => b32().prop_map(V::B256),
        1 => fixed(256).prop_map(V::B2048),
        2 => bytes(200).prop_map(V::Bytes),
        2 => bytes(200).prop_filter("no EOF prefix", |b| b.first() != Some(&0xef)).prop_map(V::Bytecode),
        1 => (b32(), bint(), b32()).prop_map(|(a, b, c)| V::Account(a, b, c)),
        2 => log_d().prop_map(V::Log),
        3 => tx_d().prop_map(V::Tx),
        3 => receipt_d().prop_map(V::Receipt),
        3 => block_d().prop_map(V::Block),
        2 => (block_d(), proptest::collection::vec(tx_d(), 0..3), proptest::collection::vec(receipt_d(), 0..3)).prop_map(|(b, t, r)| V::Raw(b, t, r)),
        3 => trace_d().prop_map(V::Trace),
        1 => text().prop_map(V::Str),
        1 => proptest::option::of(bint()).prop_map(V::OptU64),
        1 => proptest::collection::vec(b32(), 0..5).prop_map(V::VecB256),
        3 => (b20(), bint()).prop_map(|(a, n)| V::PairAddrNonce(a, n)),
        2 => proptest::collection::vec((bint(), proptest::option::of(bint())), 0..12).prop_map(V::HistU64),
        1 => proptest::collection::vec((bint(), proptest::option::of(tx_d())), 0..4).prop_map(V::HistTx),
    ]
    .boxed()
}

fn case_strategy() -> BoxedStrategy<Case> {
    // pairs of the same kind are the interesting ones for the ordering law: generate b as a
    // perturbation-free second draw and let the check compare kinds
    prop_oneof![
        3 => (v_strategy(), v_strategy()).prop_map(|(a, b)| Case { a, b }),
        2 => (bint(), bint()).prop_map(|(a, b)| Case { a: V::U64(a), b: V::U64(b) }),
        2 => (bint(), bint(), bint(), bint()).prop_map(|(a, b, c, d)| Case { a: V::U128(((a as u128) << 64) | b as u128), b: V::U128(((c as u128) << 64) | d as u128) }),
        2 => (b20(), bint(), b20(), bint()).prop_map(|(a, b, c, d)| Case { a: V::PairAddrNonce(a, b), b: V::PairAddrNonce(c, d) }),
        1 => (b20(), bint(), bint()).prop_map(|(a, b, d)| Case { a: V::PairAddrNonce(a, b), b: V::PairAddrNonce(a, d) }),
        1 => (b32(), b32()).prop_map(|(a, b)| Case { a: V::U256(a), b: V::U256(b) }),
        1 => (b32(), b32(), b32(), b32()).prop_map(|(a, b, c, d)| Case { a: V::U512([a.to_vec(), b.to_vec()].concat()), b: V::U512([c.to_vec(), d.to_vec()].concat()) }),
    ]
    .boxed()
}

// ---- conversion

fn a20(b: &[u8; 20]) -> AddressED {
    AddressED::new(Address::from(*b))
}
fn h32(b: &[u8; 32]) -> B256ED {
    B256ED::new(B256::from(*b))
}
fn u256(b: &[u8; 32]) -> U256ED {
    U256ED::new(U256::from_be_bytes(*b))
}
fn b2048(b: &[u8]) -> B2048ED {
    let mut x = [0u8; 256];
    x.copy_from_slice(&b[..256]);
    B2048ED::new(FixedBytes::<256>::from(x))
}
fn log(l: &LogD) -> LogED {
    LogED {
        address: a20(&l.addr),
        topics: l.topics.iter().map(h32).collect(),
        data: l.data.clone().into(),
        transaction_index: l.tx_index.into(),
        transaction_hash: h32(&l.tx_hash),
        block_hash: h32(&l.block_hash),
        block_number: l.block_number.into(),
        log_index: l.log_index.into(),
    }
}
fn tx(t: &TxD) -> TxED {
    TxED {
        hash: h32(&t.hash),
        nonce: t.nonce.into(),
        block_hash: h32(&t.block_hash),
        block_number: t.block_number.map(Into::into),
        transaction_index: t.tx_index.map(Into::into),
        from: a20(&t.from),
        to: t.to.as_ref().map(a20),
        value: t.value.into(),
        gas: t.gas.into(),
        gas_price: t.gas_price.into(),
        input: t.input.clone().into(),
        v: t.v.into(),
        r: u256(&t.r),
        s: u256(&t.s),
        chain_id: CONFIG.read().chain_id.into(),
        tx_type: 0u8.into(),
        inscription_id: t.insc.clone(),
    }
}
fn receipt(r: &ReceiptD) -> TxReceiptED {
    TxReceiptED {
        status: r.status.into(),
        logs: r.logs.iter().map(log).collect(),
        gas_used: r.gas_used.into(),
        from: a20(&r.from),
        to: r.to.as_ref().map(a20),
        contract_address: r.contract.as_ref().map(a20),
        logs_bloom: b2048(&r.bloom),
        block_hash: h32(&r.block_hash),
        block_number: r.block_number.into(),
        transaction_hash: h32(&r.tx_hash),
        transaction_index: r.tx_index.into(),
        cumulative_gas_used: r.cumulative.into(),
        effective_gas_price: 0u64.into(),
        transaction_type: 0u8.into(),
    }
}
fn block(b: &BlockD) -> BlockResponseED {
    let z32 = || h32(&[0u8; 32]);
    BlockResponseED {
        difficulty: 0u64.into(),
        gas_limit: (MAX_BLOCK_SIZE * GAS_PER_BYTE).into(),
        gas_used: b.gas_used.into(),
        hash: h32(&b.hash),
        logs_bloom: b2048(&b.bloom),
        nonce: b.nonce.into(),
        number: b.number.into(),
        timestamp: b.timestamp.into(),
        mine_timestamp: b.mine_ts.into(),
        transactions: Either::Left(b.txs.iter().map(h32).collect()),
        base_fee_per_gas: 0u64.into(),
        transactions_root: h32(&b.root),
        uncles: vec![],
        withdrawals: vec![],
        withdrawals_root: z32(),
        total_difficulty: 0u64.into(),
        parent_beacon_block_root: z32(),
        parent_hash: h32(&b.parent),
        receipts_root: z32(),
        sha3_uncles: z32(),
        size: 0u64.into(),
        state_root: z32(),
        miner: a20(&[0u8; 20]),
        mix_hash: z32(),
        excess_blob_gas: 0u64.into(),
        extra_data: z32(),
        blob_gas_used: 0u64.into(),
    }
}
fn trace(t: &TraceD) -> TraceED {
    TraceED {
        tx_type: t.ty.clone(),
        from: a20(&t.from),
        to: t.to.as_ref().map(a20),
        calls: t.calls.iter().map(trace).collect(),
        gas: u256(&t.gas),
        gas_used: u256(&t.gas_used),
        input: t.input.clone().into(),
        output: t.output.clone().into(),
        value: u256(&t.value),
        error: t.error.clone(),
        revert_reason: t.revert.clone(),
    }
}

// ---- laws

fn guarded<R>(what: &str, f: impl FnOnce() -> Result<R, Failure>) -> Result<R, Failure> {
    match std::panic::catch_unwind(std::panic::AssertUnwindSafe(f)) {
        Ok(r) => r,
        Err(_) => Err(Failure::new(format!("C14/panic:{}", what), take_last_panic().unwrap_or_default())),
    }
}

/// round trip + exact consumption + concatenation
fn codec<T: Encode + Decode + PartialEq + Debug>(name: &str, a: &T, b: &T) -> Result<(), Failure> {
    guarded(name, || {
        let ea = a.encode_vec();
        let eb = b.encode_vec();
        let (da, used) = T::decode(&ea, 0).map_err(|e| Failure::new(format!("C14/decode-error:{}", name), format!("{:?}: {}", a, e)))?;
        if da != *a {
            fail!(format!("C14/roundtrip:{}", name), "{:?} decoded as {:?}", a, da);
        }
        if used != ea.len() {
            fail!(format!("C14/not-self-delimiting:{}", name), "{:?}: {} bytes produced, {} consumed", a, ea.len(), used);
        }
        let cat = [ea.clone(), eb.clone(), vec![0xAB, 0xCD]].concat();
        let (d1, o1) = T::decode(&cat, 0).map_err(|e| Failure::new(format!("C14/decode-error:{}", name), e.to_string()))?;
        let (d2, o2) = T::decode(&cat, o1).map_err(|e| Failure::new(format!("C14/decode-error:{}", name), e.to_string()))?;
        if d1 != *a || d2 != *b || o1 != ea.len() || o2 != ea.len() + eb.len() {
            fail!(format!("C14/concatenation:{}", name), "{:?} ++ {:?} decoded as {:?} (to {}) and {:?} (to {})", a, b, d1, o1, d2, o2);
        }
        Ok(())
    })
}

fn order<T: Encode + Debug, O: Ord>(name: &str, a: &T, b: &T, ka: O, kb: O) -> Result<(), Failure> {
    let (ea, eb) = (a.encode_vec(), b.encode_vec());
    if ea.cmp(&eb) != ka.cmp(&kb) {
        fail!(format!("C14/key-order:{}", name), "{:?} vs {:?}: values compare {:?}, encodings compare {:?}", a, b, ka.cmp(&kb), ea.cmp(&eb));
    }
    Ok(())
}

fn json_stable<T: Serialize + DeserializeOwned>(name: &str, a: &T) -> Result<(), Failure> {
    guarded(name, || {
        let j1 = serde_json::to_string(a).map_err(|e| Failure::new(format!("C14/json-serialize:{}", name), e.to_string()))?;
        let back: T = serde_json::from_str(&j1).map_err(|e| Failure::new(format!("C14/json-deserialize:{}", name), format!("{} :: {}", e, crate::observe::short(&Value::String(j1.clone())))))?;
        let j2 = serde_json::to_string(&back).map_err(|e| Failure::new(format!("C14/json-serialize:{}", name), e.to_string()))?;
        if j1 != j2 {
            fail!(format!("C14/json-not-stable:{}", name), "{} became {}", crate::observe::short(&Value::String(j1)), crate::observe::short(&Value::String(j2)));
        }
        Ok(())
    })
}

fn hist<T: Encode + Decode + Clone + Eq>(items: &[(u64, Option<T>)]) -> BlockHistoryCacheData<T> {
    // build through the codec: (u32 len)(u64 block, Option<T>)*, sorted unique blocks as a BTreeMap would hold them
    let mut m: std::collections::BTreeMap<u64, Option<T>> = std::collections::BTreeMap::new();
    for (b, v) in items {
        m.insert(*b, v.clone());
    }
    let mut buf = Vec::new();
    (m.len() as u32).encode(&mut buf);
    for (b, v) in &m {
        b.encode(&mut buf);
        v.encode(&mut buf);
    }
    BlockHistoryCacheData::<T>::decode_vec(&buf).expect("history decodes")
}

#[derive(PartialEq)]
struct HistEq(Vec<u8>);
impl Debug for HistEq {
    fn fmt(&self, f: &mut std::fmt::Formatter<'_>) -> std::fmt::Result {
        write!(f, "history[{}]", hex::encode(&self.0))
    }
}
impl Encode for HistEq {
    fn encode(&self, buffer: &mut Vec<u8>) {
        buffer.extend_from_slice(&self.0)
    }
}

fn one(a: &V, b: &V) -> Result<&'static str, Failure> {
    use V::*;
    Ok(match (a, b) {
        (U8(x), U8(y)) => {
            let (p, q) = (U8ED::from(*x), U8ED::from(*y));
            codec("U8ED", &p, &q)?;
            order("U8ED", &p, &q, *x, *y)?;
            json_stable("U8ED", &p)?;
            "U8ED"
        }
        (U64(x), U64(y)) => {
            let (p, q) = (U64ED::from(*x), U64ED::from(*y));
            codec("U64ED", &p, &q)?;
            order("U64ED", &p, &q, *x, *y)?;
            json_stable("U64ED", &p)?;
            codec("u64", x, y)?;
            order("u64", x, y, *x, *y)?;
            "U64ED"
        }
        (U128(x), U128(y)) => {
            let (p, q) = (U128ED::from(*x), U128ED::from(*y));
            codec("U128ED", &p, &q)?;
            order("U128ED(block<<64|index)", &p, &q, *x, *y)?;
            json_stable("U128ED", &p)?;
            "U128ED"
        }
        (U256(x), U256(y)) => {
            let (p, q) = (u256(x), u256(y));
            codec("U256ED", &p, &q)?;
            order("U256ED", &p, &q, *x, *y)?;
            json_stable("U256ED", &p)?;
            "U256ED"
        }
        (U512(x), U512(y)) => {
            let mk = |v: &Vec<u8>| {
                let mut b = [0u8; 64];
                b.copy_from_slice(&v[..64]);
                U512ED::new(Uint::<512, 8>::from_be_bytes(b))
            };
            let (p, q) = (mk(x), mk(y));
            codec("U512ED", &p, &q)?;
            order("U512ED", &p, &q, x.clone(), y.clone())?;
            json_stable("U512ED", &p)?;
            "U512ED"
        }
        (Addr(x), Addr(y)) => {
            let (p, q) = (a20(x), a20(y));
            codec("AddressED", &p, &q)?;
            order("AddressED", &p, &q, *x, *y)?;
            json_stable("AddressED", &p)?;
            "AddressED"
        }
        (B256(x), B256(y)) => {
            let (p, q) = (h32(x), h32(y));
            codec("B256ED", &p, &q)?;
            order("B256ED", &p, &q, *x, *y)?;
            json_stable("B256ED", &p)?;
            "B256ED"
        }
        (B2048(x), B2048(y)) => {
            let (p, q) = (b2048(x), b2048(y));
            codec("B2048ED", &p, &q)?;
            json_stable("B2048ED", &p)?;
            "B2048ED"
        }
        (Bytes(x), Bytes(y)) => {
            let (p, q): (BytesED, BytesED) = (x.clone().into(), y.clone().into());
            codec("BytesED", &p, &q)?;
            json_stable("BytesED", &p)?;
            codec("Vec<u8>", x, y)?;
            "BytesED"
        }
        (Bytecode(x), Bytecode(y)) => {
            let mk = |v: &Vec<u8>| -> BytecodeED { revm::bytecode::Bytecode::new_raw(alloy::primitives::Bytes::from(v.clone())).into() };
            let (p, q) = (mk(x), mk(y));
            codec("BytecodeED", &p, &q)?;
            json_stable("BytecodeED", &p)?;
            "BytecodeED"
        }
        (Account(b1, n1, c1), Account(b2, n2, c2)) => {
            let mk = |b: &[u8; 32], n: u64, c: &[u8; 32]| AccountInfoED { balance: u256(b), nonce: n.into(), code_hash: h32(c) };
            let (p, q) = (mk(b1, *n1, c1), mk(b2, *n2, c2));
            codec("AccountInfoED", &p, &q)?;
            json_stable("AccountInfoED", &p)?;
            "AccountInfoED"
        }
        (Log(x), Log(y)) => {
            let (p, q) = (log(x), log(y));
            codec("LogED", &p, &q)?;
            json_stable("LogED", &p)?;
            codec("Vec<LogED>", &vec![p.clone(), q.clone()], &vec![q.clone()])?;
            "LogED"
        }
        (Tx(x), Tx(y)) => {
            let (p, q) = (tx(x), tx(y));
            codec("TxED", &p, &q)?;
            json_stable("TxED", &p)?;
            codec("Option<TxED>", &Some(p.clone()), &None)?;
            "TxED"
        }
        (Receipt(x), Receipt(y)) => {
            let (p, q) = (receipt(x), receipt(y));
            codec("TxReceiptED", &p, &q)?;
            json_stable("TxReceiptED", &p)?;
            "TxReceiptED"
        }
        (Block(x), Block(y)) => {
            let (p, q) = (block(x), block(y));
            codec("BlockResponseED", &p, &q)?;
            json_stable("BlockResponseED", &p)?;
            "BlockResponseED"
        }
        (Raw(bx, tx_, rx), Raw(by, ty, ry)) => {
            let mk = |b: &BlockD, t: &Vec<TxD>, r: &Vec<ReceiptD>| RawBlock::new(block(b), t.iter().map(tx).collect(), r.iter().map(receipt).collect());
            let (p, q) = (mk(bx, tx_, rx), mk(by, ty, ry));
            codec("RawBlock", &p, &q)?;
            // full-transaction form of the block JSON
            let mut full = block(bx);
            full.transactions = Either::Right(tx_.iter().map(tx).collect());
            json_stable("BlockResponseED(full)", &full)?;
            "RawBlock"
        }
        (Trace(x), Trace(y)) => {
            let (p, q) = (trace(x), trace(y));
            codec("TraceED", &p, &q)?;
            json_stable("TraceED", &p)?;
            "TraceED"
        }
        (Str(x), Str(y)) => {
            codec("String", x, y)?;
            "String"
        }
        (OptU64(x), OptU64(y)) => {
            let (p, q): (Option<U64ED>, Option<U64ED>) = (x.map(Into::into), y.map(Into::into));
            codec("Option<U64ED>", &p, &q)?;
            "Option<U64ED>"
        }
        (VecB256(x), VecB256(y)) => {
            let (p, q): (Vec<B256ED>, Vec<B256ED>) = (x.iter().map(h32).collect(), y.iter().map(h32).collect());
            codec("Vec<B256ED>", &p, &q)?;
            "Vec<B256ED>"
        }
        (PairAddrNonce(a1, n1), PairAddrNonce(a2, n2)) => {
            let (p, q): ((AddressED, U64ED), (AddressED, U64ED)) = ((a20(a1), (*n1).into()), (a20(a2), (*n2).into()));
            codec("(AddressED,U64ED)", &p, &q)?;
            order("(AddressED,U64ED)", &p, &q, (*a1, *n1), (*a2, *n2))?;
            "(AddressED,U64ED)"
        }
        (HistU64(x), HistU64(y)) => {
            let cv = |v: &Vec<(u64, Option<u64>)>| -> Vec<(u64, Option<U64ED>)> { v.iter().map(|(b, o)| (*b, o.map(Into::into))).collect() };
            let (p, q) = (hist(&cv(x)), hist(&cv(y)));
            let (ep, eq) = (p.encode_vec(), q.encode_vec());
            guarded("BlockHistoryCacheData<U64ED>", || {
                let cat = [ep.clone(), eq.clone()].concat();
                let (d1, o1) = BlockHistoryCacheData::<U64ED>::decode(&cat, 0).map_err(|e| Failure::new("C14/decode-error:history", e.to_string()))?;
                let (d2, o2) = BlockHistoryCacheData::<U64ED>::decode(&cat, o1).map_err(|e| Failure::new("C14/decode-error:history", e.to_string()))?;
                if d1.encode_vec() != ep || d2.encode_vec() != eq || o1 != ep.len() || o2 != cat.len() {
                    fail!("C14/concatenation:BlockHistoryCacheData<U64ED>", "{:?} ++ {:?}", HistEq(ep.clone()), HistEq(eq.clone()));
                }
                Ok(())
            })?;
            "BlockHistoryCacheData<U64ED>"
        }
        (HistTx(x), HistTx(y)) => {
            let cv = |v: &Vec<(u64, Option<TxD>)>| -> Vec<(u64, Option<TxED>)> { v.iter().map(|(b, o)| (*b, o.as_ref().map(tx))).collect() };
            let (p, q) = (hist(&cv(x)), hist(&cv(y)));
            let (ep, eq) = (p.encode_vec(), q.encode_vec());
            guarded("BlockHistoryCacheData<TxED>", || {
                let cat = [ep.clone(), eq.clone()].concat();
                let (d1, o1) = BlockHistoryCacheData::<TxED>::decode(&cat, 0).map_err(|e| Failure::new("C14/decode-error:history", e.to_string()))?;
                let (d2, o2) = BlockHistoryCacheData::<TxED>::decode(&cat, o1).map_err(|e| Failure::new("C14/decode-error:history", e.to_string()))?;
                if d1.encode_vec() != ep || d2.encode_vec() != eq || o1 != ep.len() || o2 != cat.len() {
                    fail!("C14/concatenation:BlockHistoryCacheData<TxED>", "histories of {} and {} versions", x.len(), y.len());
                }
                Ok(())
            })?;
            "BlockHistoryCacheData<TxED>"
        }
        _ => "",
    })
}

pub fn check(case: &Case) -> CheckResult {
    let mut info = CaseInfo::default();
    let k = one(&case.a, &case.b)?;
    if k.is_empty() {
        // different kinds: check each against itself
        let k1 = one(&case.a, &case.a)?;
        let k2 = one(&case.b, &case.b)?;
        info.class(k1);
        info.class(k2);
    } else {
        info.class(k);
        info.class("pair-of-same-type");
    }
    info.nontrivial = true;
    Ok(info)
}

impl Property for C14 {
    fn id(&self) -> &'static str {
        "C14"
    }
    fn run(&self, ctx: &Ctx, ev: &mut Evidence) -> Vec<Found> {
        ev.assumptions.push("domain = what the module can persist: configured chain id, constant legacy fields at their constructor values, hash-list form of block transactions in storage, bytecode not starting with 0xEF, valid UTF-8 strings".into());
        let cfg = PartCfg {
            name: "values",
            rule: "pairs of generated values of every persisted/served type (boundary integers, empty/maximal byte strings, None/Some at every optional position, traces nested to depth 4, blocks with 0..4 hashes, raw blocks, histories): decode(encode a) == (a, len); decode(encode a ++ encode b ++ junk) yields a then b at the right offsets; for numeric and composite keys the byte order of the encodings equals the value order; JSON text is unchanged by deserialise+serialise. Every case is non-trivial (a value pair); distinct by serialised pair",
            cases: ctx.tier.pick(800_000, 12_000_000),
            max_shrink_iters: 4000,
        };
        explore(ctx, ev, &cfg, case_strategy, check)
    }
    fn replay(&self, _part: &str, case: &Value) -> CheckResult {
        check(&decode_case::<Case>(case)?)
    }
}
