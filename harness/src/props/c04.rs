//! C04 — a crash at any write can be recovered exactly by a reorg to a durable height.
use brc20_prog::verif as v;
use proptest::prelude::*;
use proptest::test_runner::{Config, RngAlgorithm, TestRng, TestRunner};
use serde_json::{json, Value};

use crate::driver::{Instance, Resp};
use crate::engine::*;
use crate::fail;
use crate::observe::{observe, Obs};
use crate::ops::*;
use crate::props::c01::differs;
use crate::props::Property;

pub struct C04;

fn histories(seed: u64, n: usize) -> Vec<Vec<Op>> {
    let rng = TestRng::from_seed(RngAlgorithm::ChaCha, &alloy::primitives::keccak256(format!("C04-histories-{}", seed)).0);
    let mut runner = TestRunner::new_with_rng(Config::default(), rng);
    let mut c = HistCfg::general();
    c.min_ops = 10;
    c.max_ops = 28;
    c.w_commit = 10;
    c.w_clear = 1;
    c.w_reopen = 1;
    c.w_reorg = 5;
    c.w_mine = 5;
    c.max_mine = 6;
    let s = history_strategy(c);
    let mut out: Vec<Vec<Op>> = (0..n).map(|_| s.new_tree(&mut runner).expect("tree").current()).collect();
    // structured family: a commit, then state-changing blocks that exist only in memory, then a shallow reorg
    // whose target lies at or above the durable height (the reorg itself is what writes those blocks' rows)
    let mut pre = HistCfg::general();
    pre.min_ops = 3;
    pre.max_ops = 8;
    pre.w_commit = 4;
    pre.w_reorg = 1;
    pre.w_clear = 0;
    pre.w_reopen = 0;
    pre.max_mine = 4;
    let mut mid = HistCfg::general().no_persistence_events();
    mid.min_ops = 4;
    mid.max_ops = 9;
    mid.w_mine = 3;
    mid.max_mine = 2;
    let (sp, sm) = (history_strategy(pre), history_strategy(mid));
    for k in 0..(n / 3).max(2) {
        let mut h = sp.new_tree(&mut runner).expect("tree").current();
        h.push(Op::Commit);
        let m = sm.new_tree(&mut runner).expect("tree").current();
        h.extend(m.into_iter().skip(1)); // without its Init
        h.push(Op::Mine { n: 1 + (k % 2) as u8, ts: 77 });
        h.push(Op::Reorg { depth: 1 + (k % 2) as u8, keep_soft: false });
        h.push(Op::Commit);
        out.push(h);
    }
    // structured family: the same above height 11, where a key created in an orphaned block is left with nothing
    // but an entry older than the window (commit then drops its history row): committed blocks, reorg, repair
    for k in 0..(n / 4).max(2) {
        let mut h = sp.new_tree(&mut runner).expect("tree").current();
        h.push(Op::Mine { n: 11, ts: 78 });
        let m = sm.new_tree(&mut runner).expect("tree").current();
        h.extend(m.into_iter().skip(1));
        h.push(Op::Mine { n: 1, ts: 79 });
        if k % 2 == 0 {
            h.push(Op::Commit);
        }
        h.push(Op::Reorg { depth: 1 + (k % 3) as u8, keep_soft: false });
        h.push(Op::Commit);
        out.push(h);
    }
    out
}

#[derive(Clone, Debug)]
struct Point {
    op_idx: usize,
    /// absolute (1-based) site index since the start of the history
    site: u64,
    name: &'static str,
    /// 0 finalise/other, 1 commit, 2 reorg
    kind: u8,
    first_or_last: bool,
}

struct Plan {
    points: Vec<Point>,
}

/// run the history once, recording which write sites each operation passes
fn dry_run(ops: &[Op]) -> Plan {
    v::failpoint_reset(0, false, true);
    let mut r = Runner::new("c04d");
    let mut points = vec![];
    for (i, op) in ops.iter().enumerate() {
        let before = v::failpoint_count();
        r.apply(i, op);
        let after = v::failpoint_count();
        let log = v::failpoint_log();
        let kind = match op {
            Op::Commit => 1,
            Op::Reorg { .. } => 2,
            _ => 0,
        };
        for s in (before + 1)..=after {
            points.push(Point { op_idx: i, site: s, name: log[(s - 1) as usize], kind, first_or_last: s == before + 1 || s == after });
        }
    }
    v::failpoint_reset(0, false, false);
    Plan { points }
}

/// observation of a fresh replay of the first d+1 blocks
fn reference(reqs_by_block: &[Vec<Req>], d: usize, uni: &crate::observe::Universe) -> Result<(Instance, Obs), Failure> {
    let mut b = Instance::fresh("c04ref");
    let reqs: Vec<Req> = reqs_by_block[..=d].iter().flatten().cloned().collect();
    replay_requests(&mut b, &reqs).map_err(|e| Failure::new("C04/reference-replay-refused", e))?;
    let o = observe(&mut b, uni);
    Ok((b, o))
}

fn extension(inst: &mut Instance, tag: u64) -> Vec<Value> {
    // two fixed blocks: a deployment + a deposit, then a call by inscription id
    let mut out = vec![];
    let h = |s: &str| b256_hex(alloy::primitives::keccak256(format!("{}{}", s, tag)));
    let insc = format!("{}i0", hex::encode(alloy::primitives::keccak256(format!("c04ext{}", tag))));
    let insc2 = format!("{}i1", hex::encode(alloy::primitives::keccak256(format!("c04ext{}", tag))));
    let insc3 = format!("{}i2", hex::encode(alloy::primitives::keccak256(format!("c04ext{}", tag))));
    out.push(inst.call("brc20_deploy", json!({"from_pkscript": PKSCRIPTS[2], "data": "0x6001600055600a600f600039600a6000f3600160005401600055", "timestamp": 5, "hash": h("e1"), "tx_idx": 0, "inscription_id": insc, "inscription_byte_len": 2500, "op_return_tx_id": h("t")})).to_json());
    out.push(inst.call("brc20_deposit", json!({"to_pkscript": PKSCRIPTS[1], "ticker": "c04x", "amount": "0x9", "timestamp": 5, "hash": h("e1"), "tx_idx": 1, "inscription_id": insc2})).to_json());
    out.push(inst.call("brc20_finaliseBlock", json!({"timestamp": 5, "hash": h("e1"), "block_tx_count": 2})).to_json());
    out.push(inst.call("brc20_call", json!({"from_pkscript": PKSCRIPTS[0], "contract_inscription_id": insc, "data": "0x00", "timestamp": 6, "hash": h("e2"), "tx_idx": 0, "inscription_id": insc3, "inscription_byte_len": 2500, "op_return_tx_id": h("t2")})).to_json());
    out.push(inst.call("brc20_finaliseBlock", json!({"timestamp": 6, "hash": h("e2"), "block_tx_count": 1})).to_json());
    out.into_iter().map(|v| crate::observe::canon(&v)).collect()
}

/// Runs in a child process: replay the history in `dir` with the failpoint armed in abort mode, so that
/// the process really dies (SIGABRT) in front of the chosen write.
pub fn child_main(args: &[String]) {
    let ops: Vec<Op> = serde_json::from_str(&std::fs::read_to_string(&args[0]).expect("case file")).expect("ops");
    let site: u64 = args[1].parse().expect("site");
    let dir = std::path::PathBuf::from(&args[2]);
    std::fs::create_dir_all(&dir).expect("dir");
    crate::driver::install_panic_hook();
    v::failpoint_reset(site, true, false);
    let mut r = Runner::with_instance(Instance::at(&dir).expect("open"));
    for (i, op) in ops.iter().enumerate() {
        r.apply(i, op);
    }
    // not reached when the site is hit
    std::process::exit(3);
}

/// crash the history at one write site and check recovery
fn crash_at(ops: &[Op], p: &Point, idx: u64, external: bool) -> CheckResult {
    let res = crash_at_inner(ops, p, idx, external);
    res
}

fn crash_at_inner(ops: &[Op], p: &Point, idx: u64, external: bool) -> CheckResult {
    let mut info = CaseInfo::default();
    v::failpoint_reset(p.site, false, false);
    let mut r = Runner::new("c04c");
    let mut crashed = false;
    // model state right before the crashing op
    let mut committed_before = 0usize;
    let mut blocks_before: Vec<Vec<Req>> = vec![];
    let mut hef_before: Option<u64> = None;
    let mut reorg_target: Option<u64> = None;
    for (i, op) in ops.iter().enumerate() {
        if i == p.op_idx {
            // ops that are preceded by an implicit finalise: do it first so that the model is exact
            if matches!(op, Op::Commit | Op::Reorg { .. } | Op::Mine { .. } | Op::Init { .. }) {
                // the implicit finalise may itself contain the crash site (a finalise write)
                let n = r.events.len();
                r.to_boundary();
                if r.events[n..].iter().any(|e| matches!(&e.resp, Resp::Panic(m) if m.contains(v::FAILPOINT_SENTINEL))) {
                    // counted as a crash outside commit/reorg
                    committed_before = r.model.committed;
                    blocks_before = r.model.blocks.iter().map(|b| b.reqs.clone()).collect();
                    hef_before = r.model.hef;
                    crashed = true;
                    break;
                }
            }
            committed_before = r.model.committed;
            blocks_before = r.model.blocks.iter().map(|b| b.reqs.clone()).collect();
            hef_before = r.model.hef;
            if let Op::Reorg { depth, .. } = op {
                reorg_target = r.model.height().map(|h| h.saturating_sub(*depth as u64));
            }
        }
        let n = r.events.len();
        r.apply(i, op);
        if r.events[n..].iter().any(|e| matches!(&e.resp, Resp::Panic(m) if m.contains(v::FAILPOINT_SENTINEL))) {
            crashed = true;
            break;
        }
        if i == p.op_idx {
            break;
        }
    }
    v::failpoint_reset(0, false, false);
    if !crashed {
        fail!("harness/crash-point-not-reached", "site {} of op {} was not reached on the re-run (history not deterministic?)", p.site, p.op_idx);
    }
    // the process is dead: nothing else is written; restart
    let uni = r.uni.clone();
    struct DirGuard(std::path::PathBuf);
    impl Drop for DirGuard {
        fn drop(&mut self) {
            let _ = std::fs::remove_dir_all(&self.0);
        }
    }
    let mut _external_dir: Option<DirGuard> = None;
    if external {
        // the same crash in a real child process that abort()s at the site; recovery is then checked on
        // the directory that process left behind
        let base = crate::driver::fresh_dir("c04x");
        let casefile = base.join("ops.json");
        std::fs::write(&casefile, serde_json::to_string(ops).unwrap()).expect("write case");
        let dir = base.join("db");
        let st = std::process::Command::new(std::env::current_exe().unwrap())
            .args(["child-crash", &casefile.to_string_lossy(), &p.site.to_string(), &dir.to_string_lossy()])
            .stdout(std::process::Stdio::null())
            .stderr(std::process::Stdio::null())
            .status();
        let aborted = st.as_ref().map(|s| s.code().is_none()).unwrap_or(false);
        if !aborted {
            let _ = std::fs::remove_dir_all(&base);
            fail!("harness/child-did-not-die-at-the-site", "site {} of op {}: {:?}", p.site, p.op_idx, st);
        }
        match Instance::at(&dir) {
            Ok(i) => r.inst = i,
            Err(e) => {
                let _ = std::fs::remove_dir_all(&base);
                fail!("C04/database-does-not-reopen-after-crash", "real process death at site {} ({}) of op {}: {}", p.site, p.name, p.op_idx, e);
            }
        }
        _external_dir = Some(DirGuard(base));
        info.class("real-process-death-in-a-child");
    } else if let Err(e) = r.inst.reopen() {
        fail!("C04/database-does-not-reopen-after-crash", "crash at site {} ({}) of op {}: {}", p.site, p.name, p.op_idx, e);
    }
    let what = format!("crash before write #{} ({}) during op {} {:?}", p.site, p.name, p.op_idx, ops[p.op_idx]);
    let reopened_height = r.inst.call("eth_blockNumber", json!([])).ok().and_then(parse_u64).unwrap_or(0);
    if committed_before == 0 {
        info.class("crash-before-first-commit");
        return Ok(info); // nothing was durable: no height to recover to
    }
    let c = committed_before - 1; // last durable height
    let hef = hef_before.unwrap_or(c as u64);
    if p.kind == 0 {
        // crash outside commit/reorg: exactly the state of the last successful commit
        let (_b, want) = reference(&blocks_before, c, &uni)?;
        let got = observe(&mut r.inst, &uni);
        differs(&got, &want, "C04/crash-outside-commit-lost-more-than-uncommitted-work", &what)?;
        info.class("crash-in-finalise");
        info.nontrivial = blocks_before.len() > committed_before;
        return Ok(info);
    }
    // crash inside commit / reorg: every durable height in the window recovers exactly
    let top = (c as u64).min(reorg_target.unwrap_or(u64::MAX)).min(reopened_height);
    let low = hef.saturating_sub(10);
    if top < low {
        info.class("no-durable-height-inside-the-window");
        return Ok(info);
    }
    let mut targets = vec![top];
    if top > low {
        targets.push(low + (idx % (top - low)));
    }
    targets.dedup();
    let mut last_ref: Option<Instance> = None;
    let debug = std::env::var("VERIF_C04_DEBUG").ok();
    let dbg_dump = |inst: &mut Instance, tag: &str| {
        if let Some(needle) = &debug {
            inst.close();
            if let Ok(rows) = super::c10::dump(&inst.dir) {
                for (t, k, v) in rows {
                    let kh = hex::encode(&k);
                    if t.contains("account_memory") && kh.contains(needle.as_str()) {
                        eprintln!("DBG {} {} {} = {}", tag, t, kh, hex::encode(&v));
                    }
                }
            }
            inst.reopen().expect("reopen after dump");
        }
    };
    dbg_dump(&mut r.inst, "after-crash");
    for d in targets {
        let rr = r.inst.call("brc20_reorg", json!([d]));
        dbg_dump(&mut r.inst, "after-recovery-reorg");
        if !rr.is_ok() {
            fail!("C04/reorg-to-durable-height-refused-after-crash", "{}: reorg({}) (durable up to {}, reopened height {}, highest ever {}): {:?}", what, d, c, reopened_height, hef, rr);
        }
        let (b, want) = reference(&blocks_before, d as usize, &uni)?;
        let got = observe(&mut r.inst, &uni);
        differs(&got, &want, "C04/state-after-recovery-differs-from-fresh-replay", &format!("{}; reorg({})", what, d))?;
        last_ref = Some(b);
        info.class(if p.kind == 1 { "recovered-after-crash-in-commit" } else { "recovered-after-crash-in-reorg" });
    }
    if idx % 6 == 0 {
        if let Some(mut b) = last_ref {
            let ea = extension(&mut r.inst, idx);
            let eb = extension(&mut b, idx);
            if ea != eb {
                fail!("C04/extension-after-recovery-differs", "{}: {:?} vs {:?}", what, ea, eb);
            }
            let (oa, ob) = (observe(&mut r.inst, &uni), observe(&mut b, &uni));
            differs(&oa, &ob, "C04/extension-after-recovery-differs", &what)?;
            info.class("extended-after-recovery");
        }
    }
    info.nontrivial = !p.first_or_last;
    info.class_if(!p.first_or_last, "crash-strictly-inside-the-write-sequence");
    Ok(info)
}

impl Property for C04 {
    fn id(&self) -> &'static str {
        "C04"
    }
    fn level(&self) -> &'static str {
        "fault_enumeration"
    }
    fn run(&self, ctx: &Ctx, ev: &mut Evidence) -> Vec<Found> {
        ev.assumptions.push("a crash is modelled as: sentinel panic in front of the write, the instance is dropped without any further write, the directory is reopened (process death; RocksDB's WAL keeps what was written). Not power loss.".into());
        let hs = histories(ctx.seed, ctx.tier.pick(8, 60));
        let plans: Vec<Plan> = hs.iter().map(|h| dry_run(h)).collect();
        let mut offsets = vec![];
        let mut total = 0u64;
        for p in &plans {
            offsets.push(total);
            total += p.points.len() as u64;
        }
        if !is_worker() {
            let per_kind = |k: u8| plans.iter().map(|p| p.points.iter().filter(|x| x.kind == k).count()).sum::<usize>();
            ev.extra.insert("histories".into(), json!(hs.len()));
            ev.extra.insert("crash_points".into(), json!({"total": total, "in_commit": per_kind(1), "in_reorg": per_kind(2), "in_finalise": per_kind(0)}));
            ev.extra.insert("sites_per_history".into(), json!(plans.iter().map(|p| p.points.len()).collect::<Vec<_>>()));
            ev.exhaustive = Some(true);
        }
        let hs_ref = &hs;
        let plans_ref = &plans;
        let thorough = ctx.tier == Tier::Thorough || std::env::var("VERIF_C04_CHILD").is_ok();
        let offs = offsets.clone();
        explore_indexed(
            ctx,
            ev,
            "crash-points",
            "for each of the generated histories (commits every few blocks, reorgs, mining): EVERY persistent write site (RocksDB put/delete/flush) passed by every commit, reorg and finalise is used once as the crash point: the history is re-run in a new directory, the process 'dies' in front of that write, the directory is reopened; crash outside commit/reorg => observation equals a fresh replay of the durable chain; crash inside commit/reorg => reorg to the newest durable height and to one more durable height in the window is accepted and the observation equals a fresh replay up to that height (every 6th point additionally extends both with two blocks). Non-trivial = a crash point strictly inside the write sequence of a commit or reorg",
            total,
            move |i| {
                let h = offs.iter().rposition(|o| *o <= i).unwrap();
                let p = &plans_ref[h].points[(i - offs[h]) as usize];
                (crash_at(&hs_ref[h], p, i, thorough && i % 20 == 7), json!({"history": hs_ref[h], "op_idx": p.op_idx, "site": p.site, "site_name": p.name, "kind": p.kind, "first_or_last": p.first_or_last, "index": i}))
            },
        )
    }
    fn replay(&self, _part: &str, case: &Value) -> CheckResult {
        let d = &case["desc"];
        let ops: Vec<Op> = decode_case(&d["history"])?;
        let names = ["cached/history.delete", "cached/history.put", "cached/latest.put", "cached/latest.delete", "block/put", "block/flush", "block/delete", "config/put", "config/flush"];
        let name = names.iter().find(|n| Some(**n) == d["site_name"].as_str()).cloned().unwrap_or("?");
        let p = Point {
            op_idx: d["op_idx"].as_u64().unwrap_or(0) as usize,
            site: d["site"].as_u64().unwrap_or(0),
            name,
            kind: d["kind"].as_u64().unwrap_or(0) as u8,
            first_or_last: d["first_or_last"].as_bool().unwrap_or(false),
        };
        // Which key a write site belongs to depends on the per-map hash order of the module's caches, so one
        // run of a saved point is one sample: the whole operation the point lies in is enumerated again
        // (about a hundred sites of that operation, evenly spread and including the saved one), the saved site first.
        let idx = d["index"].as_u64().unwrap_or(0);
        let mut last = crash_at(&ops, &p, idx, false)?;
        let plan = dry_run(&ops);
        let in_op: Vec<&Point> = plan.points.iter().filter(|q| q.op_idx == p.op_idx).collect();
        let stride = (in_op.len() as u64).div_ceil(100).max(1);
        for q in in_op.iter().filter(|q| q.site % stride == p.site % stride) {
            last = crash_at(&ops, q, idx, false)?;
        }
        Ok(last)
    }
}
