//! C05 — a rejected indexer call changes nothing; the block protocol is enforced.
use alloy::primitives::{keccak256, B256};
use proptest::prelude::*;
use serde::{Deserialize, Serialize};
use serde_json::{json, Value};

use crate::driver::Resp;
use crate::engine::*;
use crate::fail;
use crate::observe::{canon_resp, observe};
use crate::ops::*;
use crate::props::Property;

pub struct C05;

#[derive(Clone, Debug, Serialize, Deserialize, PartialEq)]
pub enum TxKindSel {
    Deploy,
    Call,
    Transact,
    Deposit,
    Withdraw,
}

#[derive(Clone, Debug, Serialize, Deserialize, PartialEq)]
pub enum Bad {
    /// tx_idx = count + delta (delta != 0), or a huge value
    WrongTxIdx(TxKindSel, i8),
    WrongTimestamp(TxKindSel),
    WrongHash(TxKindSel),
    FinaliseWrongCount(i8),
    FinaliseWrongHash,
    FinaliseWrongTimestamp,
    /// a transaction / finalise carrying the hash of an existing block (index)
    ExistingBlockHash(bool, u16),
    CommitMidBlock,
    ReorgMidBlock(u8),
    MineMidBlock,
    BothEncodings(TxKindSel),
    NeitherEncoding(TxKindSel),
    NonHexPkscript(TxKindSel, u8),
    IllTyped(TxKindSel, u8),
    InitDifferentGenesis,
    InitWrongHeight(u8),
    UndecodableRawTx(Vec<u8>),
    ReorgAboveHeight(u8),
}

#[derive(Clone, Debug, Serialize, Deserialize)]
pub struct Case {
    pub ops: Vec<Op>,
    /// (position, call) — injected before the op at that position
    pub bad: Vec<(u16, Bad)>,
}

impl Simplify for Case {
    fn simpler(&self) -> Vec<Self> {
        let mut v = vec![];
        for i in (0..self.bad.len()).rev() {
            if self.bad.len() > 1 {
                let mut b = self.bad.clone();
                b.remove(i);
                v.push(Case { ops: self.ops.clone(), bad: b });
            }
        }
        v.extend(simpler_vec(&self.ops, 1).into_iter().map(|ops| Case { ops, bad: self.bad.clone() }));
        v
    }
}

fn kind() -> impl Strategy<Value = TxKindSel> {
    prop_oneof![Just(TxKindSel::Deploy), Just(TxKindSel::Call), Just(TxKindSel::Transact), Just(TxKindSel::Deposit), Just(TxKindSel::Withdraw)]
}
fn payload_kind() -> impl Strategy<Value = TxKindSel> {
    prop_oneof![Just(TxKindSel::Deploy), Just(TxKindSel::Call), Just(TxKindSel::Transact)]
}

fn bad_strategy() -> impl Strategy<Value = Bad> {
    prop_oneof![
        6 => (kind(), prop_oneof![Just(1i8), Just(-1), Just(2), Just(127), Just(-128)]).prop_map(|(k, d)| Bad::WrongTxIdx(k, d)),
        3 => kind().prop_map(Bad::WrongTimestamp),
        3 => kind().prop_map(Bad::WrongHash),
        3 => prop_oneof![Just(1i8), Just(-1), Just(5)].prop_map(Bad::FinaliseWrongCount),
        2 => Just(Bad::FinaliseWrongHash),
        2 => Just(Bad::FinaliseWrongTimestamp),
        3 => (any::<bool>(), any::<u16>()).prop_map(|(f, i)| Bad::ExistingBlockHash(f, i)),
        3 => Just(Bad::CommitMidBlock),
        3 => (0u8..4).prop_map(Bad::ReorgMidBlock),
        2 => Just(Bad::MineMidBlock),
        3 => payload_kind().prop_map(Bad::BothEncodings),
        3 => payload_kind().prop_map(Bad::NeitherEncoding),
        2 => (kind(), 0u8..4).prop_map(|(k, v)| Bad::NonHexPkscript(k, v)),
        2 => (kind(), 0u8..6).prop_map(|(k, v)| Bad::IllTyped(k, v)),
        1 => Just(Bad::InitDifferentGenesis),
        2 => (1u8..5).prop_map(Bad::InitWrongHeight),
        2 => proptest::collection::vec(any::<u8>(), 0..60).prop_map(Bad::UndecodableRawTx),
        1 => (1u8..5).prop_map(Bad::ReorgAboveHeight),
    ]
}

fn strategy() -> BoxedStrategy<Case> {
    let mut c = HistCfg::general();
    c.w_mine = 3;
    c.max_mine = 4;
    c.w_reorg = 2;
    c.max_ops = 40;
    (history_strategy(c), proptest::collection::vec((any::<u16>(), bad_strategy()), 1..7)).prop_map(|(ops, bad)| Case { ops, bad }).boxed()
}

fn base_params(r: &mut Runner, k: &TxKindSel) -> (&'static str, serde_json::Map<String, Value>) {
    let mut p = serde_json::Map::new();
    let code = "0x600a600c600039600a6000f3602a60005260206000f3";
    let method = match k {
        TxKindSel::Deploy => {
            p.insert("from_pkscript".into(), json!(PKSCRIPTS[0]));
            p.insert("data".into(), json!(code));
            "brc20_deploy"
        }
        TxKindSel::Call => {
            p.insert("from_pkscript".into(), json!(PKSCRIPTS[1]));
            p.insert("contract_address".into(), json!(addr_hex(r.contracts.first().cloned().unwrap_or_else(controller))));
            p.insert("data".into(), json!("0x00"));
            "brc20_call"
        }
        TxKindSel::Transact => {
            // prefer a signer who has transactions waiting in the pool: a rejected call must not touch them
            let pool = r.inst.call("txpool_content", json!([]));
            let mut who = 3u8;
            for s in 0..3u8 {
                if pool.ok().map(|v| v["pending"][addr_hex(signer_addr(s))].as_object().map(|m| !m.is_empty()).unwrap_or(false)).unwrap_or(false) {
                    who = s;
                }
            }
            let n = r.account_nonce(signer_addr(who));
            let raw = sign_legacy(who, Some(crate::driver::chain_id()), n, alloy::primitives::TxKind::Create, hex::decode(&code[2..]).unwrap());
            p.insert("raw_tx_data".into(), json!(format!("0x{}", hex::encode(raw))));
            "brc20_transact"
        }
        TxKindSel::Deposit => {
            p.insert("to_pkscript".into(), json!(PKSCRIPTS[2]));
            p.insert("ticker".into(), json!("ordi"));
            p.insert("amount".into(), json!("0x64"));
            "brc20_deposit"
        }
        TxKindSel::Withdraw => {
            p.insert("from_pkscript".into(), json!(PKSCRIPTS[2]));
            p.insert("ticker".into(), json!("ordi"));
            p.insert("amount".into(), json!("0x1"));
            "brc20_withdraw"
        }
    };
    if !matches!(k, TxKindSel::Deposit | TxKindSel::Withdraw) {
        p.insert("inscription_byte_len".into(), json!(2500));
        p.insert("op_return_tx_id".into(), json!(b256_hex(keccak256(b"badtx"))));
    }
    p.insert("inscription_id".into(), json!(format!("{}i0", hex::encode(keccak256(format!("bad{}", r.events.len()))))));
    (method, p)
}

/// the parameters a *valid* next transaction of the current block would carry
fn block_fields(r: &mut Runner) -> (B256, u64, u64) {
    match &r.open {
        Some(o) => (o.hash_param, o.ts, o.count),
        None => (keccak256(format!("badblk{}", r.events.len())), 77, 0),
    }
}

/// returns (request, must_reject) or None if the violation does not apply in the current state
fn build_bad(r: &mut Runner, bad: &Bad) -> Option<(String, Value, bool)> {
    let engine_open = r.open.as_ref().map(|o| o.count > 0).unwrap_or(false);
    let (h, ts, count) = block_fields(r);
    let with_block = |mut p: serde_json::Map<String, Value>, h: B256, ts: u64, idx: u64| {
        p.insert("hash".into(), json!(b256_hex(h)));
        p.insert("timestamp".into(), json!(ts));
        p.insert("tx_idx".into(), json!(idx));
        Value::Object(p)
    };
    Some(match bad {
        Bad::WrongTxIdx(k, d) => {
            let idx = match *d {
                127 => u64::MAX,
                -128 => 0,
                d => (count as i64 + d as i64).max(0) as u64,
            };
            if idx == count {
                return None;
            }
            let (m, p) = base_params(r, k);
            (m.into(), with_block(p, h, ts, idx), true)
        }
        Bad::WrongTimestamp(k) => {
            if !engine_open {
                return None;
            }
            let (m, p) = base_params(r, k);
            (m.into(), with_block(p, h, ts.wrapping_add(1), count), true)
        }
        Bad::WrongHash(k) => {
            if !engine_open {
                return None;
            }
            let (m, p) = base_params(r, k);
            (m.into(), with_block(p, keccak256(b"otherhash"), ts, count), true)
        }
        Bad::FinaliseWrongCount(d) => {
            let c = (count as i64 + *d as i64).max(0) as u64;
            if c == count {
                return None;
            }
            ("brc20_finaliseBlock".into(), json!({"timestamp": ts, "hash": b256_hex(h), "block_tx_count": c}), true)
        }
        Bad::FinaliseWrongHash => {
            if !engine_open {
                return None;
            }
            ("brc20_finaliseBlock".into(), json!({"timestamp": ts, "hash": b256_hex(keccak256(b"otherhash2")), "block_tx_count": count}), true)
        }
        Bad::FinaliseWrongTimestamp => {
            if !engine_open {
                return None;
            }
            ("brc20_finaliseBlock".into(), json!({"timestamp": ts.wrapping_add(9), "hash": b256_hex(h), "block_tx_count": count}), true)
        }
        Bad::ExistingBlockHash(finalise, i) => {
            if engine_open {
                return None; // then it is a hash differing from the open block (covered above)
            }
            let hashes: Vec<B256> = r.model.blocks.iter().filter_map(|b| b.hash).collect();
            let eh = crate::evm::pick(&hashes, *i)?;
            if *finalise {
                ("brc20_finaliseBlock".into(), json!({"timestamp": ts, "hash": b256_hex(eh), "block_tx_count": count}), true)
            } else {
                let (m, p) = base_params(r, &TxKindSel::Call);
                (m.into(), with_block(p, eh, ts, count), true)
            }
        }
        Bad::CommitMidBlock => {
            if !engine_open {
                return None;
            }
            ("brc20_commitToDatabase".into(), json!([]), true)
        }
        Bad::ReorgMidBlock(d) => {
            if !engine_open {
                return None;
            }
            let n = r.model.height().unwrap_or(0).saturating_sub(*d as u64);
            ("brc20_reorg".into(), json!([n]), true)
        }
        Bad::MineMidBlock => {
            if !engine_open {
                return None;
            }
            ("brc20_mine".into(), json!([1, 5]), false)
        }
        Bad::BothEncodings(k) => {
            let (m, mut p) = base_params(r, k);
            if m == "brc20_transact" {
                let raw = p["raw_tx_data"].as_str().unwrap().to_string();
                let b = brc20_prog::types::Base64Bytes::from_bytes(hex::decode(&raw[2..]).unwrap().into()).ok()?;
                p.insert("base64_raw_tx_data".into(), json!(b.to_string()));
            } else {
                p.insert("base64_data".into(), json!("AGAA"));
            }
            (m.into(), with_block(p, h, ts, count), true)
        }
        Bad::NeitherEncoding(k) => {
            let (m, mut p) = base_params(r, k);
            p.remove("data");
            p.remove("raw_tx_data");
            (m.into(), with_block(p, h, ts, count), true)
        }
        Bad::NonHexPkscript(k, v) => {
            let (m, mut p) = base_params(r, k);
            let s = ["zz", "abc", "0x6a", "6a 6a"][*v as usize % 4];
            let key = if p.contains_key("to_pkscript") { "to_pkscript" } else { "from_pkscript" };
            if !p.contains_key(key) {
                return None;
            }
            p.insert(key.into(), json!(s));
            (m.into(), with_block(p, h, ts, count), false)
        }
        Bad::IllTyped(k, v) => {
            let (m, p) = base_params(r, k);
            let mut p = with_block(p, h, ts, count);
            let o = p.as_object_mut().unwrap();
            match v % 6 {
                0 => {
                    o.insert("timestamp".into(), json!("yesterday"));
                }
                1 => {
                    o.insert("tx_idx".into(), json!(-1));
                }
                2 => {
                    o.remove("inscription_id");
                }
                3 => {
                    o.insert("hash".into(), json!("0x1234"));
                }
                4 => {
                    o.insert("tx_idx".into(), json!(1.5));
                }
                _ => {
                    o.insert("timestamp".into(), Value::Null);
                }
            }
            (m.into(), p, false)
        }
        Bad::InitDifferentGenesis => {
            if r.model.blocks.is_empty() || engine_open {
                return None;
            }
            ("brc20_initialise".into(), json!({"genesis_hash": b256_hex(keccak256(b"othergenesis")), "genesis_timestamp": 1, "genesis_height": 0}), true)
        }
        Bad::InitWrongHeight(d) => {
            if engine_open {
                return None;
            }
            let n = r.model.next_height() + *d as u64;
            ("brc20_initialise".into(), json!({"genesis_hash": b256_hex(keccak256(b"othergenesis2")), "genesis_timestamp": 1, "genesis_height": n}), true)
        }
        Bad::UndecodableRawTx(bytes) => {
            let mut p = serde_json::Map::new();
            p.insert("raw_tx_data".into(), json!(format!("0x{}", hex::encode(bytes))));
            p.insert("inscription_byte_len".into(), json!(2500));
            p.insert("op_return_tx_id".into(), json!(b256_hex(keccak256(b"badtx"))));
            p.insert("inscription_id".into(), json!(format!("{}i0", hex::encode(keccak256(format!("badraw{}", r.events.len()))))));
            ("brc20_transact".into(), with_block(p, h, ts, count), false)
        }
        Bad::ReorgAboveHeight(d) => {
            if engine_open {
                return None;
            }
            let n = r.model.height()? + *d as u64;
            ("brc20_reorg".into(), json!([n]), true)
        }
    })
}

fn bad_name(b: &Bad) -> String {
    format!("{:?}", b).split('(').next().unwrap_or("").to_string()
}

pub fn check(case: &Case) -> CheckResult {
    let mut info = CaseInfo::default();
    let mut a = Runner::new("c05a");
    let mut b = Runner::new("c05b");
    let n = case.ops.len().max(1);
    let mut midblock_followed = 0;
    let mut pending_mid = false;
    for (i, op) in case.ops.iter().enumerate() {
        for (pos, bad) in &case.bad {
            if pick_idx(*pos, n) != i {
                continue;
            }
            let Some((method, params, must_reject)) = build_bad(&mut a, bad) else { continue };
            let mid = a.open.as_ref().map(|o| o.count > 0).unwrap_or(false);
            let before = observe(&mut a.inst, &a.uni);
            let resp = a.inst.call(&method, params.clone());
            let name = bad_name(bad);
            match &resp {
                Resp::Panic(m) => fail!(format!("C05/panic:{}", name), "before op {}: {} {} panicked: {}", i, method, params, m),
                Resp::Ok(v) => {
                    if must_reject {
                        fail!(format!("C05/accepted-out-of-protocol-call:{}", name), "before op {}: {} {} was accepted: {}", i, method, params, crate::observe::short(v));
                    }
                    // an accepted call that is not in the must-reject list changed the history legitimately:
                    // this case cannot be compared with the undisturbed twin any more
                    info.class("tolerated-call-accepted");
                    return Ok(info);
                }
                Resp::Err { .. } => {
                    let after = observe(&mut a.inst, &a.uni);
                    if let Err(f) = crate::props::c01::differs(&before, &after, &format!("C05/rejected-call-changed-state:{}", name), &format!("before op {}: {} {} -> {:?}", i, method, params, resp.err_msg())) {
                        return Err(f);
                    }
                    info.class(&format!("rejected:{}", name));
                    if mid {
                        pending_mid = true;
                        info.class("injected-mid-block");
                    }
                }
            }
        }
        let (fa, fb) = (a.events.len(), b.events.len());
        let open_before = a.open.as_ref().map(|o| o.count).unwrap_or(0);
        a.apply(i, op);
        b.apply(i, op);
        if pending_mid && a.open.as_ref().map(|o| o.count).unwrap_or(0) > open_before {
            midblock_followed += 1;
            pending_mid = false;
        }
        if a.open.is_none() {
            pending_mid = false;
        }
        let (ea, eb) = (&a.events[fa..], &b.events[fb..]);
        if ea.len() != eb.len() {
            fail!("C05/history-diverged-after-rejected-call", "op {}: {} vs {} calls", i, ea.len(), eb.len());
        }
        for (x, y) in ea.iter().zip(eb.iter()) {
            let (rx, ry) = (canon_resp(&x.resp), canon_resp(&y.resp));
            if x.req != y.req || rx != ry {
                fail!(
                    format!("C05/response-differs-after-rejected-call:{}", x.req.method),
                    "op {} {}: {}",
                    i,
                    x.req.method,
                    crate::observe::json_diff(&rx, &ry, "").unwrap_or_else(|| format!("{} vs {}", x.req.params, y.req.params))
                );
            }
            // every regular call that errors must be without effect too (it is not part of the twin's block either)
            if x.resp.is_panic() {
                fail!("C05/panic", "op {} {}: {:?}", i, x.req.method, x.resp);
            }
        }
    }
    a.to_boundary();
    b.to_boundary();
    let (oa, ob) = (observe(&mut a.inst, &a.uni), observe(&mut b.inst, &a.uni));
    crate::props::c01::differs(&oa, &ob, "C05/final-state-differs-from-undisturbed-run", "at the end")?;
    info.nontrivial = midblock_followed > 0;
    Ok(info)
}

impl Property for C05 {
    fn id(&self) -> &'static str {
        "C05"
    }
    fn run(&self, ctx: &Ctx, ev: &mut Evidence) -> Vec<Found> {
        ev.assumptions.push("brc20_initialise's 'Bitcoin RPC status check failed' after creating the genesis block is an environment error (out of scope by the property text)".into());
        let cfg = PartCfg {
            name: "inject",
            rule: "a valid generated history with 1-6 out-of-protocol or malformed indexer calls injected at generated positions (also mid-block): calls on the property's must-reject list must return an error; every rejected call must leave the full observation (incl. txpool) unchanged; all remaining calls must answer exactly as on a twin that never saw the rejected calls, and the final observations must be equal. Non-trivial = a call rejected mid-block followed by at least one more accepted transaction in the same block",
            cases: ctx.tier.pick(1000, 12_000),
            max_shrink_iters: ctx.tier.pick(250, 1000),
        };
        explore(ctx, ev, &cfg, strategy, check)
    }
    fn replay(&self, _part: &str, case: &Value) -> CheckResult {
        check(&decode_case::<Case>(case)?)
    }
}
