//! C06 — blocks, transactions, receipts, logs and inscription indexes are coherent.
use std::collections::HashMap;

use alloy::consensus::{Block, Header, ReceiptWithBloom, TxEnvelope};
use alloy::primitives::keccak256;
use alloy_rlp::Decodable;
use proptest::prelude::*;
use serde::{Deserialize, Serialize};
use serde_json::{json, Value};

use crate::driver::Resp;
use crate::engine::*;
use crate::fail;
use crate::observe::{canon, short};
use crate::ops::*;
use crate::props::Property;

pub struct C06;

#[derive(Clone, Debug, Serialize, Deserialize)]
pub struct Case {
    pub ops: Vec<Op>,
}

impl Simplify for Case {
    fn simpler(&self) -> Vec<Self> {
        simpler_vec(&self.ops, 1).into_iter().map(|ops| Case { ops }).collect()
    }
}

fn strategy() -> BoxedStrategy<Case> {
    let mut c = HistCfg::general();
    c.w_mine = 3;
    c.max_mine = 3;
    c.w_reorg = 4;
    c.w_transact = 12;
    history_strategy(c).prop_map(|ops| Case { ops }).boxed()
}

fn hexbytes(v: &Value) -> Vec<u8> {
    v.as_str().map(|s| hex::decode(s.trim_start_matches("0x")).unwrap_or_default()).unwrap_or_default()
}

/// own bloom: 3 x 11 bits of keccak(address) and keccak(topic) for every log
fn bloom_of(logs: &[Value]) -> Vec<u8> {
    let mut b = vec![0u8; 256];
    let mut add = |data: &[u8]| {
        let h = keccak256(data);
        for i in [0usize, 2, 4] {
            let bit = (((h[i] as usize) << 8) | h[i + 1] as usize) & 2047;
            b[255 - bit / 8] |= 1 << (bit % 8);
        }
    };
    for l in logs {
        add(&hexbytes(&l["address"]));
        if let Some(ts) = l["topics"].as_array() {
            for t in ts {
                add(&hexbytes(t));
            }
        }
    }
    b
}

/// own merkle root: sha256 over pairs, an odd node is promoted unchanged, no leaves -> zero
fn merkle_root(leaves: &[Vec<u8>]) -> Vec<u8> {
    if leaves.is_empty() {
        return vec![0u8; 32];
    }
    let mut layer: Vec<Vec<u8>> = leaves.to_vec();
    while layer.len() > 1 {
        let mut next = vec![];
        for pair in layer.chunks(2) {
            if pair.len() == 2 {
                let d = sha256::digest([pair[0].clone(), pair[1].clone()].concat().as_slice());
                next.push(hex::decode(d).unwrap());
            } else {
                next.push(pair[0].clone());
            }
        }
        layer = next;
    }
    layer.pop().unwrap()
}

fn ok(r: Resp, what: &str) -> Result<Value, Failure> {
    match r {
        Resp::Ok(v) => Ok(v),
        o => Err(Failure::new("C06/query-failed", format!("{}: {:?}", what, o))),
    }
}

/// all invariants over all heights of the surviving chain
pub fn coherent(r: &mut Runner, when: &str) -> Result<u64, Failure> {
    let mut checked_txs = 0u64;
    let nblocks = r.model.blocks.len() as u64;
    let tip = ok(r.inst.call("eth_blockNumber", json!([])), "eth_blockNumber")?;
    if nblocks > 0 && parse_u64(&tip) != Some(nblocks - 1) {
        fail!("C06/height", "{}: eth_blockNumber {} but {} blocks were finalised", when, tip, nblocks);
    }
    let mut prev_hash = format!("0x{}", "00".repeat(32));
    let mut seen_hashes: HashMap<String, u64> = HashMap::new();
    for h in 0..nblocks {
        for (rc, _) in &r.model.blocks[h as usize].receipts {
            let x = rc["transactionHash"].as_str().unwrap_or("").to_string();
            if let Some(prev) = seen_hashes.insert(x.clone(), h) {
                // known finding: a transaction that fails validation does not consume the nonce, so an
                // identical later inscription call gets the same hash (see KNOWN_FINDINGS.txt)
                fail!("C06/tx-hash-reused-after-validation-failure", "{}: hash {} returned for block {} was already used in block {}", when, x, h, prev);
            }
        }
    }
    for h in 0..nblocks {
        let rec = r.model.blocks[h as usize].clone();
        let b = ok(r.inst.call("eth_getBlockByNumber", json!([format!("0x{:x}", h), false])), "eth_getBlockByNumber")?;
        let at = format!("{}: block {}", when, h);
        if parse_u64(&b["number"]) != Some(h) {
            fail!("C06/block-number", "{}: number field {}", at, b["number"]);
        }
        if b["parentHash"].as_str() != Some(&prev_hash) {
            fail!("C06/parent-hash", "{}: parentHash {} but block {} has hash {}", at, b["parentHash"], h.saturating_sub(1), prev_hash);
        }
        let bh = b["hash"].as_str().unwrap_or("").to_string();
        let by_hash = ok(r.inst.call("eth_getBlockByHash", json!([bh, false])), "eth_getBlockByHash")?;
        if canon(&by_hash) != canon(&b) {
            fail!("C06/hash-number-not-inverse", "{}: by hash {} gives another block", at, bh);
        }
        // transaction list = receipts returned to the indexer, in index order
        let mut expected: Vec<(Value, String)> = rec.receipts.clone();
        if rec.is_init {
            let rr = ok(r.inst.call("brc20_getTxReceiptByInscriptionId", json!(["BRC20_CONTROLLER_INIT"])), "init receipt")?;
            expected = vec![(rr, "BRC20_CONTROLLER_INIT".to_string())];
        }
        let txs: Vec<String> = b["transactions"].as_array().map(|a| a.iter().filter_map(|x| x.as_str().map(String::from)).collect()).unwrap_or_default();
        let exp_hashes: Vec<String> = expected.iter().map(|(rc, _)| rc["transactionHash"].as_str().unwrap_or("").to_string()).collect();
        if txs != exp_hashes {
            fail!("C06/block-tx-list", "{}: block lists {:?}, the indexer was returned {:?}", at, txs, exp_hashes);
        }
        let cnt = ok(r.inst.call("eth_getBlockTransactionCountByNumber", json!([h.to_string()])), "tx count")?;
        let cnt_h = ok(r.inst.call("eth_getBlockTransactionCountByHash", json!([bh])), "tx count by hash")?;
        if parse_u64(&cnt) != Some(txs.len() as u64) || parse_u64(&cnt_h) != Some(txs.len() as u64) {
            fail!("C06/block-tx-count", "{}: counts {} / {} but {} transactions", at, cnt, cnt_h, txs.len());
        }
        let beyond = ok(r.inst.call("eth_getTransactionByBlockNumberAndIndex", json!([h, txs.len()])), "tx beyond")?;
        if !beyond.is_null() {
            fail!("C06/tx-beyond-count", "{}: a transaction is served at index {}", at, txs.len());
        }
        let full = ok(r.inst.call("eth_getBlockByNumber", json!([h.to_string(), true])), "full block")?;
        let mut log_index = 0u64;
        let mut cumulative = 0u64;
        let mut all_logs: Vec<Value> = vec![];
        let mut json_txs: Vec<Value> = vec![];
        let mut json_receipts: Vec<Value> = vec![];
        for (i, (returned, insc)) in expected.iter().enumerate() {
            checked_txs += 1;
            let th = &exp_hashes[i];
            let att = format!("{} tx {} ({})", at, i, th);
            let t1 = ok(r.inst.call("eth_getTransactionByBlockNumberAndIndex", json!([h, i])), "tx by number+index")?;
            let t2 = ok(r.inst.call("eth_getTransactionByBlockHashAndIndex", json!([bh, i])), "tx by hash+index")?;
            let t3 = ok(r.inst.call("eth_getTransactionByHash", json!([th])), "tx by hash")?;
            if t1.is_null() || canon(&t1) != canon(&t2) || canon(&t1) != canon(&t3) {
                fail!("C06/tx-lookups-disagree", "{}: {} / {} / {}", att, short(&t1), short(&t2), short(&t3));
            }
            if full["transactions"].get(i).map(canon) != Some(canon(&t1)) {
                fail!("C06/full-block-tx", "{}: full block carries {}", att, short(&full["transactions"][i]));
            }
            if t1["hash"].as_str() != Some(th) || t1["blockHash"].as_str() != Some(&bh) || parse_u64(&t1["blockNumber"]) != Some(h) || parse_u64(&t1["transactionIndex"]) != Some(i as u64) {
                fail!("C06/tx-position", "{}: tx says block {} {} index {}", att, t1["blockNumber"], t1["blockHash"], t1["transactionIndex"]);
            }
            let rc = ok(r.inst.call("eth_getTransactionReceipt", json!([th])), "receipt")?;
            if canon(&rc) != canon(returned) {
                fail!("C06/receipt-differs-from-returned", "{}: {}", att, crate::observe::json_diff(&canon(returned), &canon(&rc), "").unwrap_or_default());
            }
            let rc2 = ok(r.inst.call("brc20_getTxReceiptByInscriptionId", json!([insc])), "receipt by inscription")?;
            if canon(&rc2) != canon(&rc) {
                fail!("C06/receipt-by-inscription-id", "{}: inscription {} leads to {}", att, insc, short(&rc2));
            }
            let ii = ok(r.inst.call("brc20_getInscriptionIdByTxHash", json!([th])), "inscription by tx")?;
            if ii.as_str() != Some(insc) {
                fail!("C06/inscription-by-tx-hash", "{}: {} expected {}", att, ii, insc);
            }
            if rc["blockHash"].as_str() != Some(&bh) || parse_u64(&rc["blockNumber"]) != Some(h) || parse_u64(&rc["transactionIndex"]) != Some(i as u64) || rc["transactionHash"].as_str() != Some(th) {
                fail!("C06/receipt-position", "{}: receipt says block {} index {}", att, rc["blockNumber"], rc["transactionIndex"]);
            }
            if rc["from"] != t1["from"] || rc["to"] != t1["to"] {
                fail!("C06/receipt-tx-parties", "{}: receipt {}->{} tx {}->{}", att, rc["from"], rc["to"], t1["from"], t1["to"]);
            }
            let gas = parse_u64(&rc["gasUsed"]).unwrap_or(0);
            cumulative = cumulative.saturating_add(gas);
            if parse_u64(&rc["cumulativeGasUsed"]) != Some(cumulative) {
                fail!("C06/cumulative-gas", "{}: cumulativeGasUsed {} but running sum {}", att, rc["cumulativeGasUsed"], cumulative);
            }
            if gas > parse_u64(&t1["gas"]).unwrap_or(u64::MAX) {
                fail!("C06/gas-used-above-limit", "{}: gasUsed {} gas {}", att, rc["gasUsed"], t1["gas"]);
            }
            let logs = rc["logs"].as_array().cloned().unwrap_or_default();
            for l in &logs {
                if parse_u64(&l["logIndex"]) != Some(log_index) {
                    fail!("C06/log-index", "{}: logIndex {} expected {}", att, l["logIndex"], log_index);
                }
                log_index += 1;
                if l["blockHash"].as_str() != Some(&bh) || parse_u64(&l["blockNumber"]) != Some(h) || l["transactionHash"].as_str() != Some(th) || parse_u64(&l["transactionIndex"]) != Some(i as u64) {
                    fail!("C06/log-position", "{}: log says {} {} {}", att, l["blockNumber"], l["transactionHash"], l["transactionIndex"]);
                }
            }
            if hexbytes(&rc["logsBloom"]) != bloom_of(&logs) {
                fail!("C06/receipt-bloom", "{}: logsBloom is not the bloom of its {} logs", att, logs.len());
            }
            all_logs.extend(logs);
            if let Some(ca) = rc["contractAddress"].as_str() {
                let ci = ok(r.inst.call("brc20_getInscriptionIdByContractAddress", json!([ca])), "inscription by contract")?;
                if ci.as_str() != Some(insc) {
                    fail!("C06/inscription-by-contract-address", "{}: contract {} maps to {} expected {}", att, ca, ci, insc);
                }
                if parse_u64(&rc["status"]) != Some(1) {
                    fail!("C06/contract-address-on-failed-tx", "{}", att);
                }
            }
            json_txs.push(t1);
            json_receipts.push(rc);
        }
        if parse_u64(&b["gasUsed"]) != Some(cumulative) {
            fail!("C06/block-gas-used", "{}: gasUsed {} but receipts sum to {}", at, b["gasUsed"], cumulative);
        }
        if hexbytes(&b["logsBloom"]) != bloom_of(&all_logs) {
            fail!("C06/block-bloom", "{}: logsBloom is not the union over its {} logs", at, all_logs.len());
        }
        let leaves: Vec<Vec<u8>> = exp_hashes.iter().map(|x| hex::decode(x.trim_start_matches("0x")).unwrap_or_default()).collect();
        if hexbytes(&b["transactionsRoot"]) != merkle_root(&leaves) {
            fail!("C06/transactions-root", "{}: {} is not the merkle root of {} hashes", at, b["transactionsRoot"], leaves.len());
        }
        // raw encodings decode to the same data
        raw_matches(r, h, &b, &json_txs, &json_receipts, &at)?;
        prev_hash = bh;
    }
    // nothing above the tip
    let above = r.inst.call("eth_getBlockByNumber", json!([nblocks.to_string(), false]));
    if above.is_ok() {
        fail!("C06/block-above-tip", "{}: a block is served at height {}", when, nblocks);
    }
    Ok(checked_txs)
}

fn raw_matches(r: &mut Runner, h: u64, b: &Value, txs: &[Value], receipts: &[Value], at: &str) -> Result<(), Failure> {
    let rb = ok(r.inst.call("debug_getRawBlock", json!([h.to_string()])), "raw block")?;
    let bytes = hexbytes(&rb);
    let block = match Block::<TxEnvelope>::decode(&mut bytes.as_slice()) {
        Ok(b) => b,
        Err(e) => fail!("C06/raw-block-undecodable", "{}: {}", at, e),
    };
    let rh = ok(r.inst.call("debug_getRawHeader", json!([h.to_string()])), "raw header")?;
    let hb = hexbytes(&rh);
    let header = match Header::decode(&mut hb.as_slice()) {
        Ok(x) => x,
        Err(e) => fail!("C06/raw-header-undecodable", "{}: {}", at, e),
    };
    if header != block.header {
        fail!("C06/raw-header-differs-from-raw-block", "{}", at);
    }
    let hd = &block.header;
    let same = hd.number == h
        && Some(hd.timestamp) == parse_u64(&b["timestamp"])
        && Some(hd.gas_used) == parse_u64(&b["gasUsed"])
        && format!("0x{}", hex::encode(hd.parent_hash)) == b["parentHash"].as_str().unwrap_or("")
        && format!("0x{}", hex::encode(hd.transactions_root)) == b["transactionsRoot"].as_str().unwrap_or("")
        && hd.logs_bloom.as_slice() == hexbytes(&b["logsBloom"]).as_slice();
    if !same {
        fail!("C06/raw-header-fields", "{}: header {:?} vs {}", at, hd, short(b));
    }
    if block.body.transactions.len() != txs.len() {
        fail!("C06/raw-block-tx-count", "{}: raw block has {} transactions, block lists {}", at, block.body.transactions.len(), txs.len());
    }
    for (i, (raw, j)) in block.body.transactions.iter().zip(txs.iter()).enumerate() {
        let TxEnvelope::Legacy(s) = raw else { fail!("C06/raw-tx-type", "{} tx {}", at, i) };
        let t = s.tx();
        let to_json = j["to"].as_str().map(|s| s.to_lowercase());
        let to_raw = t.to.to().map(|a| format!("0x{}", hex::encode(a)));
        if t.nonce != parse_u64(&j["nonce"]).unwrap_or(u64::MAX) || t.input.as_ref() != hexbytes(&j["input"]).as_slice() || Some(t.gas_limit) != parse_u64(&j["gas"]) {
            fail!("C06/raw-tx-fields", "{} tx {}: raw nonce {} input {} gas {} vs {}", at, i, t.nonce, t.input, t.gas_limit, short(j));
        }
        if to_json != to_raw {
            let zero = format!("0x{}", "00".repeat(20));
            if to_json.as_deref() == Some(&zero) && to_raw.is_none() {
                fail!("C06/raw-tx-to-zero-address-encoded-as-creation", "{} tx {}: served to = 0x0 but the raw block encodes a creation", at, i);
            }
            fail!("C06/raw-tx-to", "{} tx {}: raw to {:?} vs served {:?}", at, i, to_raw, to_json);
        }
    }
    let rr = ok(r.inst.call("debug_getRawReceipts", json!([h.to_string()])), "raw receipts")?;
    let list = rr.as_array().cloned().unwrap_or_default();
    if list.len() != receipts.len() {
        fail!("C06/raw-receipt-count", "{}: {} raw receipts for {} transactions", at, list.len(), receipts.len());
    }
    for (i, (raw, j)) in list.iter().zip(receipts.iter()).enumerate() {
        let bytes = hexbytes(raw);
        let rc = match ReceiptWithBloom::<alloy::consensus::Receipt>::decode(&mut bytes.as_slice()) {
            Ok(x) => x,
            Err(e) => fail!("C06/raw-receipt-undecodable", "{} tx {}: {}", at, i, e),
        };
        let jl = j["logs"].as_array().cloned().unwrap_or_default();
        let logs_same = rc.receipt.logs.len() == jl.len()
            && rc.receipt.logs.iter().zip(jl.iter()).all(|(a, b)| {
                a.address.as_slice() == hexbytes(&b["address"]).as_slice()
                    && a.data.data.as_ref() == hexbytes(&b["data"]).as_slice()
                    && a.data.topics().iter().map(|t| t.to_vec()).collect::<Vec<_>>() == b["topics"].as_array().map(|t| t.iter().map(hexbytes).collect::<Vec<_>>()).unwrap_or_default()
            });
        if rc.receipt.status.coerce_status() != (parse_u64(&j["status"]) == Some(1))
            || Some(rc.receipt.cumulative_gas_used) != parse_u64(&j["cumulativeGasUsed"])
            || rc.logs_bloom.as_slice() != hexbytes(&j["logsBloom"]).as_slice()
            || !logs_same
        {
            fail!("C06/raw-receipt-fields", "{} tx {}: raw receipt differs from the served one", at, i);
        }
    }
    Ok(())
}

pub fn check(case: &Case) -> CheckResult {
    let mut info = CaseInfo::default();
    let mut r = Runner::new("c06");
    let mut txs = 0;
    for (i, op) in case.ops.iter().enumerate() {
        r.apply(i, op);
        if let Some(p) = r.events.last().filter(|e| e.resp.is_panic()) {
            fail!("C06/panic", "op {} {}: {:?}", i, p.req.method, p.resp);
        }
        if r.at_boundary() && (i % 7 == 6) {
            txs = coherent(&mut r, &format!("after op {}", i))?;
        }
    }
    r.to_boundary();
    txs = txs.max(coherent(&mut r, "at the end")?);
    let rich = r.model.blocks.iter().any(|b| {
        b.receipts.len() >= 3
            && b.receipts.iter().any(|(rc, _)| parse_u64(&rc["status"]) == Some(0))
            && b.receipts.iter().any(|(rc, _)| rc["logs"].as_array().map(|l| !l.is_empty()).unwrap_or(false))
    });
    info.nontrivial = rich;
    info.class_if(rich, "block-with-3+-txs-incl-failed-and-logging");
    info.class_if(r.stats.drained > 0, "drained");
    info.class_if(r.stats.reorg_accepted > 0, "reorg+regrowth");
    info.class_if(r.stats.creates > 0, "creates");
    info.class_if(r.model.blocks.iter().any(|b| b.tx_count == 0), "empty-block");
    info.weight = 1 + txs / 8;
    Ok(info)
}

impl Property for C06 {
    fn id(&self) -> &'static str {
        "C06"
    }
    fn run(&self, ctx: &Ctx, ev: &mut Evidence) -> Vec<Found> {
        ev.assumptions.push("bloom, merkle root, running sums and RLP decoding are recomputed by harness code (alloy's RLP decoder is trusted)".into());
        let cfg = PartCfg {
            name: "history",
            rule: "random call histories (multi-transaction blocks, empty blocks, failed/reverted/invalid transactions, contract-created contracts, drains, reorg + regrowth); every 7 ops at a boundary and at the end all coherence invariants are recomputed over all heights. Non-trivial = some block has >= 3 transactions of which >= 1 failed and >= 1 emitted logs; evaluations are weighted by the number of transactions cross-checked (1 + txs/8)",
            cases: ctx.tier.pick(1500, 16_000),
            max_shrink_iters: ctx.tier.pick(250, 1000),
        };
        explore(ctx, ev, &cfg, strategy, check)
    }
    fn replay(&self, _part: &str, case: &Value) -> CheckResult {
        check(&decode_case::<Case>(case)?)
    }
}
