//! C13 — versioned tables behave like a simple map with a 10-block undo window.
use std::collections::{BTreeMap, HashSet};

use alloy::primitives::{Address, U128};
use brc20_prog::verif::{
    AddressED, BlockCachedDatabase, BlockDatabase, BlockHistoryCache, BlockHistoryCacheData, Decode, Encode, U128ED, U64ED,
};
use proptest::prelude::*;
use serde::{Deserialize, Serialize};
use serde_json::{json, Value};

use crate::driver::{fresh_dir, take_last_panic};
use crate::engine::*;
use crate::fail;
use crate::props::Property;

pub struct C13;

const WINDOW: u64 = 10;

// ---------------------------------------------------------------------------------------------
// (a) bounded-exhaustive enumeration on one history

#[derive(Clone, Copy, Debug, PartialEq, Eq, Hash, Serialize, Deserialize)]
pub enum HOp {
    SetA,
    SetB,
    Unset,
    Advance(u8),
    Rollback(u8),
}

fn alphabet() -> Vec<HOp> {
    let mut v = vec![HOp::SetA, HOp::SetB, HOp::Unset, HOp::Advance(1), HOp::Advance(9), HOp::Advance(10), HOp::Advance(11)];
    for d in 0..=11u8 {
        v.push(HOp::Rollback(d));
    }
    v
}

#[derive(Clone)]
struct HState {
    imp: BlockHistoryCacheData<U64ED>,
    /// unbounded model: every write ever made (block -> value)
    model: BTreeMap<u64, Option<u64>>,
    cur: u64,
    /// newest block this history was ever written at (survives rollbacks, like the engine's
    /// "highest block ever finalised" that bounds reorg depth one layer up)
    max_write: u64,
}

impl HState {
    fn new(initial: Option<u64>) -> HState {
        let mut model = BTreeMap::new();
        model.insert(0, initial);
        HState { imp: BlockHistoryCacheData::new(initial.map(U64ED::from)), model, cur: 0, max_write: 0 }
    }
    fn model_latest(&self) -> Option<u64> {
        *self.model.values().last().unwrap()
    }
    fn model_at(&self, n: u64) -> Option<u64> {
        self.model.range(..=n).last().map(|(_, v)| *v).unwrap_or(None)
    }
    fn newest_write(&self) -> u64 {
        self.max_write
    }
    fn imp_latest(&self) -> Option<u64> {
        self.imp.latest().map(|v| v.into())
    }
    fn versions(&self) -> usize {
        let b = self.imp.encode_vec();
        u32::from_be_bytes([b[0], b[1], b[2], b[3]]) as usize
    }
    fn key(&self) -> (Vec<u8>, Vec<(u64, Option<u64>)>, u64) {
        (self.imp.encode_vec(), self.model.iter().map(|(k, v)| (*k, *v)).collect(), self.cur * 1000 + self.max_write)
    }
}

/// apply one op; Ok(false) = sequence ended by a loud "too deep" panic (allowed only outside the window)
fn h_apply(s: &mut HState, op: HOp) -> Result<bool, Failure> {
    match op {
        HOp::SetA | HOp::SetB => {
            let v = if op == HOp::SetA { 1u64 } else { 2u64 };
            s.imp.set(s.cur, v.into());
            if s.model_latest() != Some(v) {
                s.model.insert(s.cur, Some(v));
                s.max_write = s.max_write.max(s.cur);
            }
        }
        HOp::Unset => {
            s.imp.unset(s.cur);
            if s.model_latest().is_some() {
                s.model.insert(s.cur, None);
                s.max_write = s.max_write.max(s.cur);
            }
        }
        HOp::Advance(k) => s.cur += k as u64,
        HOp::Rollback(d) => {
            let n = s.cur.saturating_sub(d as u64);
            let in_window = n + WINDOW >= s.newest_write();
            let want = s.model_at(n);
            let mut imp = s.imp.clone();
            let r = std::panic::catch_unwind(std::panic::AssertUnwindSafe(|| {
                imp.reorg(n);
                imp
            }));
            match r {
                Ok(imp) => {
                    s.imp = imp;
                    s.model.retain(|k, _| *k <= n);
                    if s.model.is_empty() {
                        s.model.insert(0, None);
                    }
                    s.cur = n;
                    if s.imp_latest() != want {
                        let sig = if in_window { "C13/rollback-in-window-wrong-value" } else { "C13/deep-rollback-silently-wrong" };
                        fail!(sig, "rollback to block {} (newest write {}): table says {:?}, the value at the end of that block was {:?}", n, s.newest_write(), s.imp_latest(), want);
                    }
                }
                Err(_) => {
                    let msg = take_last_panic().unwrap_or_default();
                    if in_window {
                        fail!("C13/rollback-in-window-panicked", "rollback to block {} (newest write {}): {}", n, s.newest_write(), msg);
                    }
                    if !msg.contains("Reorg too deep") {
                        fail!("C13/unexpected-panic", "rollback to block {}: {}", n, msg);
                    }
                    return Ok(false);
                }
            }
        }
    }
    if s.imp_latest() != s.model_latest() {
        fail!("C13/point-read-differs", "after {:?} at block {}: table {:?}, model {:?}", op, s.cur, s.imp_latest(), s.model_latest());
    }
    if s.versions() > 11 {
        fail!("C13/more-than-11-versions", "after {:?} at block {}: {} versions kept", op, s.cur, s.versions());
    }
    // encoded history decodes to itself
    let enc = s.imp.encode_vec();
    match BlockHistoryCacheData::<U64ED>::decode_vec(&enc) {
        Ok(d) if d.encode_vec() == enc => {}
        _ => fail!("C13/history-encoding-roundtrip", "after {:?}", op),
    }
    Ok(true)
}

fn h_replay(seq: &[HOp], initial: Option<u64>) -> Result<bool, Failure> {
    let mut s = HState::new(initial);
    for op in seq {
        if !h_apply(&mut s, *op)? {
            return Ok(false);
        }
    }
    Ok(true)
}

/// breadth-first over all op sequences up to `depth`, merging identical (implementation bytes, model, block) states
fn enumerate(depth: usize, cap: usize, ev: &mut Evidence) -> Vec<Found> {
    let alpha = alphabet();
    let mut found = vec![];
    let mut total_transitions = 0u64;
    let mut total_states = 0u64;
    let mut closed_all = true;
    let mut nontrivial = 0u64;
    for (initial, churn) in [(None, 0u32), (Some(1u64), 0), (None, 10), (Some(2u64), 11), (None, 12)] {
        let mut seen: HashSet<(Vec<u8>, Vec<(u64, Option<u64>)>, u64)> = HashSet::new();
        let mut start = HState::new(initial);
        let mut prefix: Vec<HOp> = vec![];
        for j in 0..churn {
            // a value change in each of `churn` consecutive blocks (the densest history possible)
            for op in [if j % 2 == 0 { HOp::SetA } else { HOp::SetB }, HOp::Advance(1)] {
                prefix.push(op);
                match h_apply(&mut start, op) {
                    Ok(_) => {}
                    Err(f) => {
                        if !found.iter().any(|x: &Found| x.sig == f.sig) {
                            found.push(Found { part: "enumerate".into(), sig: f.sig, detail: f.detail, case: json!({"initial": initial, "seq": prefix}) });
                        }
                    }
                }
            }
        }
        seen.insert(start.key());
        let mut frontier: Vec<(HState, Vec<HOp>)> = vec![(start, prefix)];
        let depth = if churn > 0 { depth.saturating_sub(2).max(3) } else { depth };
        for _level in 0..depth {
            let mut next = vec![];
            for (st, path) in &frontier {
                for op in &alpha {
                    total_transitions += 1;
                    let mut s2 = st.clone();
                    let mut p2 = path.clone();
                    p2.push(*op);
                    match h_apply(&mut s2, *op) {
                        Ok(true) => {
                            if matches!(op, HOp::Rollback(d) if *d > 0) && st.model.len() > 1 {
                                nontrivial += 1;
                            }
                            if seen.len() < cap && seen.insert(s2.key()) {
                                next.push((s2, p2));
                            } else if seen.len() >= cap {
                                closed_all = false;
                            }
                        }
                        Ok(false) => {}
                        Err(f) => {
                            if !found.iter().any(|x: &Found| x.sig == f.sig) {
                                found.push(Found { part: "enumerate".into(), sig: f.sig, detail: f.detail, case: json!({"initial": initial, "seq": p2}) });
                            }
                        }
                    }
                }
            }
            frontier = next;
            if frontier.is_empty() {
                break;
            }
        }
        if !frontier.is_empty() {
            // depth bound reached with unexplored successors: exhaustive up to `depth`, not closed
        }
        total_states += seen.len() as u64;
    }
    ev.evaluations += total_transitions;
    for i in 0..nontrivial.min(100_000) {
        ev.nontrivial.insert(0xC13_0000_0000 + i);
    }
    ev.extra.insert(
        "enumerate".into(),
        json!({"alphabet": alpha.len(), "max_sequence_length": depth, "distinct_states": total_states, "transitions": total_transitions,
               "rollbacks_of_a_written_history": nontrivial, "state_cap_hit": !closed_all,
               "exhaustive_up_to_length": depth}),
    );
    ev.exhaustive = Some(closed_all);
    ev.samples.push(json!({"part": "enumerate", "case": {"initial": null, "seq": ["SetA", {"Advance": 10}, "SetB", {"Advance": 1}, "Unset", {"Rollback": 11}]}}));
    ev.rules.push(format!("[enumerate] every sequence of up to {} ops over {{set a, set b, unset, advance 1/9/10/11 blocks, rollback d=0..11}} on one BlockHistoryCacheData<U64ED> (two initial values), identical (implementation bytes, model, block) states merged; oracle = unbounded write-history model; counted non-trivial = a rollback below the current block of a history with at least one write", depth));
    found
}

// ---------------------------------------------------------------------------------------------
// (b) random sequences on real tables

#[derive(Clone, Debug, Serialize, Deserialize, PartialEq)]
pub enum TOp {
    Set(u8, u8),
    Unset(u8),
    NextBlock(u8),
    Commit,
    Discard,
    Reopen,
    Rollback(u8),
    Range(u8, u8),
    /// n rounds of (change the value of key k; next block)
    Churn(u8, u8),
}

#[derive(Clone, Debug, Serialize, Deserialize)]
pub struct TableCase {
    /// 0: U128 keys, 1: (address, nonce) keys
    pub kind: u8,
    pub ops: Vec<TOp>,
}

impl Simplify for TableCase {
    fn simpler(&self) -> Vec<Self> {
        simpler_vec(&self.ops, 1).into_iter().map(|ops| TableCase { kind: self.kind, ops }).collect()
    }
}

fn top_strategy() -> impl Strategy<Value = TOp> {
    prop_oneof![
        10 => (0u8..12, 0u8..4).prop_map(|(k, v)| TOp::Set(k, v)),
        4 => (0u8..12).prop_map(TOp::Unset),
        8 => prop_oneof![4 => Just(1u8), 1 => 2u8..13].prop_map(TOp::NextBlock),
        4 => Just(TOp::Commit),
        2 => Just(TOp::Discard),
        2 => Just(TOp::Reopen),
        4 => (0u8..11).prop_map(TOp::Rollback),
        6 => (0u8..13, 0u8..13).prop_map(|(a, b)| TOp::Range(a, b)),
        1 => (0u8..12, 8u8..15).prop_map(|(k, n)| TOp::Churn(k, n)),
    ]
}

fn table_strategy() -> BoxedStrategy<TableCase> {
    (0u8..2, proptest::collection::vec(top_strategy(), 20..140)).prop_map(|(kind, ops)| TableCase { kind, ops }).boxed()
}

/// 12 keys with boundary values, in increasing value order; index 12 = an end bound above all
fn u128_key(i: u8) -> U128ED {
    let n = |blk: u64, idx: u64| ((blk as u128) << 64) | idx as u128;
    let v: u128 = match i {
        0 => 0,
        1 => 1,
        2 => n(0, u64::MAX),
        3 => n(1, 0),
        4 => n(1, 1),
        5 => n(1, 255),
        6 => n(1, 256),
        7 => n(1, u64::MAX),
        8 => n(2, 0),
        9 => n(255, 3),
        10 => n(256, 0),
        11 => n(u64::MAX, u64::MAX - 1),
        _ => u128::MAX,
    };
    U128ED::new(U128::from(v))
}

fn pair_key(i: u8) -> (AddressED, U64ED) {
    let a = |b: u8| AddressED::new(Address::from([b; 20]));
    match i {
        0 => (a(0), 0u64.into()),
        1 => (a(0), 1u64.into()),
        2 => (a(0), u64::MAX.into()),
        3 => (a(1), 0u64.into()),
        4 => (a(1), 255u64.into()),
        5 => (a(1), 256u64.into()),
        6 => (a(1), 65536u64.into()),
        7 => (a(1), u64::MAX.into()),
        8 => (a(2), 0u64.into()),
        9 => (a(0x7f), 9u64.into()),
        10 => (a(0x80), 0u64.into()),
        11 => (a(0xff), (u64::MAX - 1).into()),
        _ => (a(0xff), u64::MAX.into()),
    }
}

type Hist = BTreeMap<u64, Option<u64>>;

#[derive(Clone, Default)]
struct TModel {
    /// encoded key -> full write history
    keys: BTreeMap<Vec<u8>, Hist>,
}

impl TModel {
    fn latest(&self, k: &[u8]) -> Option<u64> {
        self.keys.get(k).and_then(|h| h.values().last().cloned().flatten())
    }
    fn write(&mut self, k: Vec<u8>, blk: u64, v: Option<u64>) {
        let h = self.keys.entry(k).or_default();
        if h.values().last().cloned().flatten() != v {
            h.insert(blk, v);
        }
    }
    fn rollback(&mut self, n: u64) {
        for h in self.keys.values_mut() {
            h.retain(|b, _| *b <= n);
        }
    }
    fn live(&self) -> Vec<(Vec<u8>, u64)> {
        self.keys.iter().filter_map(|(k, h)| h.values().last().cloned().flatten().map(|v| (k.clone(), v))).collect()
    }
}

fn run_table<K>(case: &TableCase, key: impl Fn(u8) -> K) -> CheckResult
where
    K: Encode + Decode + Eq + std::hash::Hash + Clone,
{
    type T<K> = BlockCachedDatabase<K, U64ED, BlockHistoryCacheData<U64ED>>;
    let mut info = CaseInfo::default();
    let dir = fresh_dir("c13t");
    let open = |d: &std::path::Path| -> Result<T<K>, Failure> { T::<K>::new(d, "t").map_err(|e| Failure::new("harness/open-table", e.to_string())) };
    let mut db = Some(open(&dir)?);
    let mut bdb: Option<BlockDatabase<U64ED>> = Some(BlockDatabase::new(&dir, "b").map_err(|e| Failure::new("harness/open-table", e.to_string()))?);
    let mut durable = TModel::default();
    let mut vol = TModel::default();
    // block-keyed table model: height -> value
    let mut bdur: BTreeMap<u64, u64> = BTreeMap::new();
    let mut bvol: BTreeMap<u64, u64> = BTreeMap::new();
    let mut cur: u64 = 0; // last finalised block; writes are stamped cur+1
    let mut max_seen: u64 = 0;
    let mut durable_cur: u64 = 0;
    let mut commits = 0;
    let mut nontrivial = false;
    let res: Result<(), Failure> = (|| {
        for (i, op) in case.ops.iter().enumerate() {
            let t = db.as_mut().unwrap();
            let b = bdb.as_mut().unwrap();
            let r = std::panic::catch_unwind(std::panic::AssertUnwindSafe(|| -> Result<(), Failure> {
                match op {
                    TOp::Set(k, v) => {
                        let kk = key(*k);
                        t.set(cur + 1, &kk, (*v as u64).into()).map_err(|e| Failure::new("C13/set-error", e.to_string()))?;
                        vol.write(kk.encode_vec(), cur + 1, Some(*v as u64));
                        max_seen = max_seen.max(cur + 1);
                    }
                    TOp::Unset(k) => {
                        let kk = key(*k);
                        t.unset(cur + 1, &kk).map_err(|e| Failure::new("C13/unset-error", e.to_string()))?;
                        vol.write(kk.encode_vec(), cur + 1, None);
                        max_seen = max_seen.max(cur + 1);
                    }
                    TOp::NextBlock(n) => {
                        for _ in 0..*n {
                            cur += 1;
                            b.set(cur, (cur * 7).into());
                            bvol.insert(cur, cur * 7);
                        }
                        max_seen = max_seen.max(cur);
                    }
                    TOp::Commit => {
                        b.commit().map_err(|e| Failure::new("C13/commit-error", e.to_string()))?;
                        t.commit(cur + 1).map_err(|e| Failure::new("C13/commit-error", e.to_string()))?;
                        b.clear_cache();
                        durable = vol.clone();
                        bdur = bvol.clone();
                        durable_cur = cur;
                        commits += 1;
                    }
                    TOp::Discard => {
                        t.clear_cache();
                        b.clear_cache();
                        vol = durable.clone();
                        bvol = bdur.clone();
                        cur = durable_cur;
                    }
                    TOp::Churn(k, n) => {
                        let kk = key(*k);
                        for j in 0..*n {
                            let v = (j % 2) as u64 + 5;
                            t.set(cur + 1, &kk, v.into()).map_err(|e| Failure::new("C13/set-error", e.to_string()))?;
                            vol.write(kk.encode_vec(), cur + 1, Some(v));
                            cur += 1;
                            b.set(cur, (cur * 7).into());
                            bvol.insert(cur, cur * 7);
                            max_seen = max_seen.max(cur);
                        }
                    }
                    TOp::Reopen | TOp::Rollback(_) | TOp::Range(..) => {}
                }
                Ok(())
            }));
            match r {
                Ok(x) => x?,
                Err(_) => fail!("C13/panic", "op {} {:?}: {}", i, op, take_last_panic().unwrap_or_default()),
            }
            match op {
                TOp::Reopen => {
                    db = None;
                    bdb = None;
                    db = Some(open(&dir)?);
                    bdb = Some(BlockDatabase::new(&dir, "b").map_err(|e| Failure::new("harness/open-table", e.to_string()))?);
                    vol = durable.clone();
                    bvol = bdur.clone();
                    cur = durable_cur;
                    info.class("reopen");
                }
                TOp::Rollback(d) => {
                    // rollbacks stay within 10 blocks of the newest write / newest block the table has seen
                    // (`max_seen` includes the stamp of writes made for a block that is not finalised yet)
                    let n = cur.saturating_sub(*d as u64).max(max_seen.saturating_sub(WINDOW));
                    if n <= cur {
                        let before = vol.live();
                        let t = db.as_mut().unwrap();
                        let b = bdb.as_mut().unwrap();
                        let r = std::panic::catch_unwind(std::panic::AssertUnwindSafe(|| -> Result<(), Failure> {
                            t.reorg(n).map_err(|e| Failure::new("C13/rollback-error", e.to_string()))?;
                            b.reorg(n).map_err(|e| Failure::new("C13/rollback-error", e.to_string()))?;
                            b.commit().map_err(|e| Failure::new("C13/rollback-error", e.to_string()))?;
                            b.clear_cache();
                            Ok(())
                        }));
                        match r {
                            Ok(x) => x?,
                            Err(_) => fail!("C13/rollback-in-window-panicked", "op {} rollback to {} (newest block seen {}): {}", i, n, max_seen, take_last_panic().unwrap_or_default()),
                        }
                        vol.rollback(n);
                        bvol.retain(|h, _| *h <= n);
                        durable = vol.clone();
                        bdur = bvol.clone();
                        cur = n;
                        durable_cur = n;
                        if commits > 0 && before != vol.live() {
                            nontrivial = true;
                            info.class("rollback-after-commit-changes-a-key");
                        }
                        info.class("rollback");
                    }
                }
                _ => {}
            }
            // ---- reads after every op
            let t = db.as_ref().unwrap();
            let b = bdb.as_ref().unwrap();
            for k in 0..12u8 {
                let kk = key(k);
                let got: Option<u64> = t.latest(&kk).map_err(|e| Failure::new("C13/read-error", e.to_string()))?.map(|v| v.into());
                let want = vol.latest(&kk.encode_vec());
                if got != want {
                    fail!("C13/point-read-differs", "op {} {:?}: key #{} reads {:?}, model {:?} (block {}, {} commits)", i, op, k, got, want, cur, commits);
                }
            }
            if let TOp::Range(x, y) = op {
                let (lo, hi) = (key(*x), key(*y));
                let (lob, hib) = (lo.encode_vec(), hi.encode_vec());
                let got: Vec<(Vec<u8>, u64)> = t.get_range(&lo, &hi).map_err(|e| Failure::new("C13/read-error", e.to_string()))?.into_iter().map(|(k, v)| (k.encode_vec(), v.into())).collect();
                let want: Vec<(Vec<u8>, u64)> = vol.live().into_iter().filter(|(k, _)| *k >= lob && *k < hib).collect();
                if got != want {
                    let mut gs = got.clone();
                    gs.sort();
                    let sig = if gs == want { "C13/range-scan-out-of-key-order" } else { "C13/range-scan-differs" };
                    fail!(sig, "op {} {:?}: range [#{}, #{}) returned {} pairs, model {} (block {}, {} commits)", i, op, x, y, got.len(), want.len(), cur, commits);
                }
                let uncommitted_in = want.iter().filter(|(k, _)| durable.latest(k) != vol.latest(k)).count();
                if uncommitted_in >= 2 && want.len() < vol.live().len() {
                    nontrivial = true;
                    info.class("range-over-2+-uncommitted-keys");
                }
            }
            if i % 4 == 0 {
                let mut got: Vec<(Vec<u8>, u64)> = t.all().map_err(|e| Failure::new("C13/read-error", e.to_string()))?.into_iter().map(|(k, v)| (k.encode_vec(), v.into())).collect();
                got.sort();
                if got != vol.live() {
                    fail!("C13/full-scan-differs", "op {} {:?}: full scan has {} pairs, model {}", i, op, got.len(), vol.live().len());
                }
            }
            // block-keyed table
            let lk = b.last_key().map_err(|e| Failure::new("C13/read-error", e.to_string()))?;
            if lk != bvol.keys().last().cloned() {
                fail!("C13/last-key-differs", "op {} {:?}: last_key {:?}, model {:?}", i, op, lk, bvol.keys().last());
            }
            for h in [0u64, 1, cur.saturating_sub(1), cur, cur + 1] {
                let got: Option<u64> = b.get(h).map_err(|e| Failure::new("C13/read-error", e.to_string()))?.map(|v| v.into());
                if got != bvol.get(&h).cloned() {
                    fail!("C13/block-table-read-differs", "op {} {:?}: get({}) = {:?}, model {:?}", i, op, h, got, bvol.get(&h));
                }
            }
        }
        Ok(())
    })();
    // close and inspect the persisted history rows
    drop(db);
    drop(bdb);
    if res.is_ok() {
        let mut opts = rocksdb::Options::default();
        opts.create_if_missing(false);
        if let Ok(raw) = rocksdb::DB::open_for_read_only(&opts, dir.join("t_cache"), false) {
            for kv in raw.iterator(rocksdb::IteratorMode::Start) {
                if let Ok((_, v)) = kv {
                    if v.len() >= 4 {
                        let n = u32::from_be_bytes([v[0], v[1], v[2], v[3]]);
                        if n > 11 {
                            let _ = std::fs::remove_dir_all(&dir);
                            fail!("C13/more-than-11-versions", "a persisted history row holds {} versions", n);
                        }
                    }
                }
            }
        }
    }
    let _ = std::fs::remove_dir_all(&dir);
    res?;
    info.nontrivial = nontrivial;
    Ok(info)
}

pub fn check_table(case: &TableCase) -> CheckResult {
    if case.kind % 2 == 0 {
        run_table(case, u128_key)
    } else {
        run_table(case, pair_key)
    }
}

impl Property for C13 {
    fn id(&self) -> &'static str {
        "C13"
    }
    fn run(&self, ctx: &Ctx, ev: &mut Evidence) -> Vec<Found> {
        ev.assumptions.push("table types are rolled back only inside the 10-block window (every caller guarantees it; the guard itself is C01's business); deeper rollbacks are issued to the single-history type, where a loud 'Reorg too deep' panic is an accepted outcome".into());
        let mut found = vec![];
        if !is_worker() {
            found.extend(enumerate(ctx.tier.pick(8, 11), ctx.tier.pick(1_500_000, 12_000_000), ev));
        }
        let cfg = PartCfg {
            name: "tables",
            rule: "random sequences (20-140 ops) of set/unset over 12 boundary keys, advance 1-12 blocks, commit, discard, reopen, in-window rollback, and range scans with generated bounds on real BlockCachedDatabase tables (U128 keys; (address,nonce) keys) plus a BlockDatabase on tmpfs; after every op all point reads, the generated range (complete, in encoded-key order), every 4th op the full scan, and last_key/get of the block table must equal an in-memory model with a durable and a volatile layer. Non-trivial = a rollback after a commit that changes a key, or a range scan over >= 2 uncommitted keys with further live keys outside",
            cases: ctx.tier.pick(6000, 120_000),
            max_shrink_iters: 2000,
        };
        found.extend(explore(ctx, ev, &cfg, table_strategy, check_table));
        found
    }
    fn replay(&self, part: &str, case: &Value) -> CheckResult {
        if part == "enumerate" {
            let seq: Vec<HOp> = decode_case(&case["seq"])?;
            let initial: Option<u64> = decode_case(&case["initial"])?;
            h_replay(&seq, initial)?;
            return Ok(CaseInfo::default());
        }
        check_table(&decode_case::<TableCase>(case)?)
    }
}
