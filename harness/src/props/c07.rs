//! C07 — the BRC20 bridge ledger is conserved and only the indexer can mint or burn.
use std::collections::BTreeMap;

use alloy::primitives::{keccak256, Address, Bytes, TxKind, U256};
use alloy::sol;
use alloy::sol_types::SolCall;
use proptest::prelude::*;
use serde::{Deserialize, Serialize};
use serde_json::{json, Value};

use crate::driver::{Instance, Resp};
use crate::engine::*;
use crate::evm::{op, Asm};
use crate::fail;
use crate::ops::*;
use crate::props::Property;

pub struct C07;

sol! {
    function ctransfer(bytes ticker, address to, uint256 value) returns (bool);
    function capprove(bytes ticker, address spender, uint256 value) returns (bool);
    function ctransferFrom(bytes ticker, address from, address to, uint256 value) returns (bool);
    function mint(bytes ticker, address to, uint256 value) returns (bool);
    function burn(bytes ticker, address from, uint256 value) returns (bool);
    function balanceOf(bytes ticker, address account) returns (uint256);
    function getTickerAddress(bytes ticker) returns (address);
    function transferOwnership(address newOwner);
}
mod tok {
    alloy::sol! {
        function transfer(address to, uint256 value) returns (bool);
        function approve(address spender, uint256 value) returns (bool);
        function transferFrom(address from, address to, uint256 value) returns (bool);
        function mint(address account, uint256 value) returns (bool);
        function burn(address account, uint256 value) returns (bool);
        function totalSupply() returns (uint256);
        function balanceOf(address account) returns (uint256);
    }
    pub mod owner {
        alloy::sol! {
            function approve(address owner, address spender, uint256 value) returns (bool);
            function transferFrom(address spender, address from, address to, uint256 value) returns (bool);
        }
    }
}

/// selector helper: the controller functions are overloaded by name, so encode by hand
fn ctrl_call(sig: &str, args: Vec<u8>) -> Vec<u8> {
    let mut d = keccak256(sig.as_bytes())[..4].to_vec();
    d.extend_from_slice(&args);
    d
}

/// tickers: (spelling variants that must all mean the same token, independent model key)
const TICKS: [(&[&str], &str); 12] = [
    // near-misses of "ordi" that are *different* tickers (whitespace, prefix, combining mark, dotless i)
    (&["ordi ", "ORDI "], "ordi "),
    (&[" ordi"], " ordi"),
    (&["ordin", "ORDIN"], "ordin"),
    (&["ORD\u{130}"], "ordi\u{307}"),
    (&["ord\u{131}"], "ord\u{131}"),
    (&["ordi", "ORDI", "OrDi", "oRDI"], "ordi"),
    (&["sats", "SATS"], "sats"),
    (&["x1z9", "X1Z9"], "x1z9"),
    (&["日本語"], "日本語"),
    (&["ÉCU", "écu", "Écu"], "écu"),
    (&["ÑAME0", "ñame0"], "ñame0"),
    (&["", ""], ""),
];

#[derive(Clone, Debug, Serialize, Deserialize, PartialEq)]
pub enum Who {
    Pk(u8),
    Signer(u8),
    /// the forwarding contract (msg.sender is a contract)
    Proxy,
    Eoa(u8),
    Zero,
}

#[derive(Clone, Debug, Serialize, Deserialize, PartialEq)]
pub enum LOp {
    Deposit { to: u8, tick: u8, spell: u8, amt: u8 },
    Withdraw { from: u8, tick: u8, spell: u8, amt: u8 },
    /// level 0: controller, 1: token contract
    Transfer { level: u8, from: Who, tick: u8, to: Who, amt: u8 },
    Approve { level: u8, from: Who, tick: u8, spender: Who, amt: u8 },
    TransferFrom { level: u8, by: Who, tick: u8, owner: Who, to: Who, amt: u8 },
    /// adversarial: kind 0 ctrl.mint 1 ctrl.burn 2 tok.mint 3 tok.burn 4 tok.ownerTransferFrom 5 tok.ownerApprove
    /// 6 ctrl.transferOwnership 7 tok.transferOwnership
    Adversarial { kind: u8, by: Who, tick: u8, victim: Who, amt: u8 },
    Finalise,
    Mine(u8),
    Commit,
    Reorg(u8),
}

#[derive(Clone, Debug, Serialize, Deserialize)]
pub struct Case {
    pub ops: Vec<LOp>,
}

impl Simplify for Case {
    fn simpler(&self) -> Vec<Self> {
        simpler_vec(&self.ops, 1).into_iter().map(|ops| Case { ops }).collect()
    }
}

fn who() -> impl Strategy<Value = Who> {
    prop_oneof![6 => (0u8..5).prop_map(Who::Pk), 2 => (0u8..2).prop_map(Who::Signer), 2 => Just(Who::Proxy), 1 => (0u8..2).prop_map(Who::Eoa)]
}
fn who_or_zero() -> impl Strategy<Value = Who> {
    prop_oneof![12 => who(), 1 => Just(Who::Zero)]
}
fn sender() -> impl Strategy<Value = Who> {
    prop_oneof![6 => (0u8..5).prop_map(Who::Pk), 2 => (0u8..2).prop_map(Who::Signer), 2 => Just(Who::Proxy)]
}
fn tick() -> impl Strategy<Value = u8> {
    // index 5 = "ordi" (the main ticker); 0..5 are its near-misses
    prop_oneof![5 => Just(5u8), 2 => Just(6u8), 2 => 0u8..5, 1 => 7u8..12]
}

fn lop() -> impl Strategy<Value = LOp> {
    prop_oneof![
        10 => (0u8..5, tick(), 0u8..4, 0u8..8).prop_map(|(to, tick, spell, amt)| LOp::Deposit { to, tick, spell, amt }),
        6 => (0u8..5, tick(), 0u8..4, 0u8..8).prop_map(|(from, tick, spell, amt)| LOp::Withdraw { from, tick, spell, amt }),
        8 => (0u8..2, sender(), tick(), who_or_zero(), 0u8..8).prop_map(|(level, from, tick, to, amt)| LOp::Transfer { level, from, tick, to, amt }),
        4 => (0u8..2, sender(), tick(), who(), 0u8..8).prop_map(|(level, from, tick, spender, amt)| LOp::Approve { level, from, tick, spender, amt }),
        5 => (0u8..2, sender(), tick(), who(), who_or_zero(), 0u8..8).prop_map(|(level, by, tick, owner, to, amt)| LOp::TransferFrom { level, by, tick, owner, to, amt }),
        7 => (0u8..8, sender(), tick(), who(), 0u8..8).prop_map(|(kind, by, tick, victim, amt)| LOp::Adversarial { kind, by, tick, victim, amt }),
        5 => Just(LOp::Finalise),
        1 => (1u8..4).prop_map(LOp::Mine),
        1 => Just(LOp::Commit),
        2 => (0u8..5).prop_map(LOp::Reorg),
    ]
}

fn strategy() -> BoxedStrategy<Case> {
    proptest::collection::vec(lop(), 10..70).prop_map(|ops| Case { ops }).boxed()
}

#[derive(Clone, Debug, Default, PartialEq)]
struct Ledger {
    /// (ticker key, holder) -> balance
    bal: BTreeMap<(String, Address), U256>,
    supply: BTreeMap<String, U256>,
    /// tokens that exist (created by the first deposit)
    exists: BTreeMap<String, bool>,
    deposited: BTreeMap<String, U256>,
    withdrawn: BTreeMap<String, U256>,
}

impl Ledger {
    fn b(&self, t: &str, a: Address) -> U256 {
        *self.bal.get(&(t.to_string(), a)).unwrap_or(&U256::ZERO)
    }
    fn s(&self, t: &str) -> U256 {
        *self.supply.get(t).unwrap_or(&U256::ZERO)
    }
}

struct Sim {
    inst: Instance,
    led: Ledger,
    snaps: Vec<Ledger>,
    hef: u64,
    open: Option<u64>,
    seq: u64,
    proxy: Address,
    failed_moves: u32,
    adversarial: u32,
    /// token contract per ticker key, learnt from the deposit receipt that created it
    tokens: BTreeMap<String, Address>,
    spellings: BTreeMap<String, std::collections::BTreeSet<String>>,
}

const TS: u64 = 500;

fn proxy_code() -> Vec<u8> {
    // forward calldata[20..] to address calldata[0..20]; revert if the inner call fails
    let mut a = Asm::new();
    let fail_l = a.new_label();
    a.push_u(20).op(op::CALLDATASIZE).op(op::SUB); // len
    a.op(op::DUP1).push_u(20).push_u(0).op(op::CALLDATACOPY); // mem[0..len] = calldata[20..]
    // call(gas, addr, 0, 0, len, 0, 0)
    a.push_u(0).push_u(0).op(op::DUP1 + 2).push_u(0).push_u(0);
    a.push_u(0).op(op::CALLDATALOAD).push_u(96).op(op::SHR);
    a.op(op::GAS).op(op::CALL);
    a.op(op::ISZERO).push_label(fail_l).op(op::JUMPI).op(op::STOP);
    a.label(fail_l).push_u(0).push_u(0).op(op::REVERT);
    let runtime = a.finish();
    let mut i = Asm::new();
    let data = i.new_label();
    i.push_u(runtime.len() as u64).push_label(data).push_u(0).op(op::CODECOPY);
    i.push_u(runtime.len() as u64).push_u(0).op(op::RETURN);
    i.mark(data);
    let mut code = i.finish();
    code.extend_from_slice(&runtime);
    code
}

impl Sim {
    fn new() -> Result<Sim, Failure> {
        let mut inst = Instance::fresh("c07");
        let r = inst.call("brc20_initialise", json!({"genesis_hash": b256_hex(keccak256(b"c07genesis")), "genesis_timestamp": TS, "genesis_height": 0}));
        if !init_effective(&r) {
            fail!("C07/setup", "{:?}", r);
        }
        let mut s = Sim { inst, led: Ledger::default(), snaps: vec![Ledger::default()], hef: 0, open: None, seq: 0, proxy: Address::ZERO, failed_moves: 0, adversarial: 0, tokens: BTreeMap::new(), spellings: BTreeMap::new() };
        // deploy the forwarding contract in block 1
        let mut p = s.block_fields();
        p.insert("from_pkscript".into(), json!(PKSCRIPTS[4]));
        p.insert("data".into(), json!(format!("0x{}", hex::encode(proxy_code()))));
        s.tx_tail(&mut p);
        let r = s.inst.call("brc20_deploy", Value::Object(p));
        let Some(addr) = r.ok().and_then(|v| v["contractAddress"].as_str().and_then(|a| a.parse::<Address>().ok())) else { fail!("C07/setup", "proxy deployment: {:?}", r) };
        s.proxy = addr;
        s.open = Some(1);
        s.finalise()?;
        Ok(s)
    }
    fn next_height(&self) -> u64 {
        self.snaps.len() as u64
    }
    fn block_fields(&mut self) -> serde_json::Map<String, Value> {
        let count = *self.open.get_or_insert(0);
        let mut p = serde_json::Map::new();
        p.insert("timestamp".into(), json!(TS));
        p.insert("hash".into(), json!(format!("0x{}", "00".repeat(32))));
        p.insert("tx_idx".into(), json!(count));
        p
    }
    fn tx_tail(&mut self, p: &mut serde_json::Map<String, Value>) {
        self.seq += 1;
        p.insert("inscription_id".into(), json!(format!("{}i0", hex::encode(keccak256(format!("c07-{}", self.seq))))));
        p.insert("inscription_byte_len".into(), json!(2500));
        p.insert("op_return_tx_id".into(), json!(b256_hex(keccak256(b"c07"))));
    }
    fn finalise(&mut self) -> Result<(), Failure> {
        let count = self.open.unwrap_or(0);
        let r = self.inst.call("brc20_finaliseBlock", json!({"timestamp": TS, "hash": format!("0x{}", "00".repeat(32)), "block_tx_count": count}));
        if !r.is_ok() {
            fail!("C07/finalise-failed", "{:?}", r);
        }
        self.hef = self.hef.max(self.next_height());
        self.snaps.push(self.led.clone());
        self.open = None;
        Ok(())
    }
    fn addr(&self, w: &Who) -> Address {
        match w {
            Who::Pk(i) => pk_addr(*i),
            Who::Signer(i) => signer_addr(*i),
            Who::Proxy => self.proxy,
            Who::Eoa(i) => crate::evm::eoa(*i),
            Who::Zero => Address::ZERO,
        }
    }
    /// submit `data` to `target` as `by`; returns the receipt status
    fn submit(&mut self, by: &Who, target: Address, data: Vec<u8>) -> Result<bool, Failure> {
        let count = *self.open.get_or_insert(0);
        let r = match by {
            Who::Pk(i) => {
                let mut p = self.block_fields();
                p.insert("from_pkscript".into(), json!(PKSCRIPTS[*i as usize % PKSCRIPTS.len()]));
                p.insert("contract_address".into(), json!(addr_hex(target)));
                p.insert("data".into(), json!(format!("0x{}", hex::encode(&data))));
                self.tx_tail(&mut p);
                self.inst.call("brc20_call", Value::Object(p))
            }
            Who::Proxy => {
                let mut d = target.to_vec();
                d.extend_from_slice(&data);
                let mut p = self.block_fields();
                p.insert("from_pkscript".into(), json!(PKSCRIPTS[3]));
                p.insert("contract_address".into(), json!(addr_hex(self.proxy)));
                p.insert("data".into(), json!(format!("0x{}", hex::encode(&d))));
                self.tx_tail(&mut p);
                self.inst.call("brc20_call", Value::Object(p))
            }
            Who::Signer(i) => {
                let a = signer_addr(*i);
                let n = self.inst.call("eth_getTransactionCount", json!([addr_hex(a), "latest"])).ok().and_then(parse_u64).unwrap_or(0);
                let raw = sign_legacy(*i, Some(crate::driver::chain_id()), n, TxKind::Call(target), data);
                let mut p = self.block_fields();
                p.insert("raw_tx_data".into(), json!(format!("0x{}", hex::encode(&raw))));
                self.tx_tail(&mut p);
                self.inst.call("brc20_transact", Value::Object(p))
            }
            _ => return Ok(false),
        };
        let Resp::Ok(v) = &r else { fail!("C07/user-tx-rejected", "{:?}", r) };
        let rc = if v.is_array() { v[0].clone() } else { v.clone() };
        self.open = Some(count + 1);
        Ok(parse_u64(&rc["status"]) == Some(1))
    }
    fn eth_call(&mut self, to: Address, data: Vec<u8>) -> Option<Vec<u8>> {
        let r = self.inst.call("eth_call", json!([{"from": addr_hex(indexer_addr()), "to": addr_hex(to), "data": format!("0x{}", hex::encode(data))}]));
        r.ok().and_then(|v| v.as_str().map(|s| hex::decode(s.trim_start_matches("0x")).unwrap_or_default()))
    }
    fn token_addr(&mut self, key: &str) -> Address {
        if self.open.is_some() {
            // executing reads wait for the block to be finalised: use what the receipts told us
            return if *self.led.exists.get(key).unwrap_or(&false) { self.tokens.get(key).cloned().unwrap_or(Address::ZERO) } else { Address::ZERO };
        }
        let d = ctrl_call("getTickerAddress(bytes)", getTickerAddressCall { ticker: Bytes::from(key.as_bytes().to_vec()) }.abi_encode()[4..].to_vec());
        self.eth_call(controller(), d).filter(|o| o.len() >= 32).map(|o| Address::from_slice(&o[12..32])).unwrap_or(Address::ZERO)
    }

    fn holders(&self) -> Vec<Address> {
        let mut v: Vec<Address> = (0..5u8).map(pk_addr).collect();
        v.extend((0..2u8).map(signer_addr));
        v.extend((0..2u8).map(crate::evm::eoa));
        v.push(self.proxy);
        v
    }

    /// at a boundary: every balance, every spelling, total supply
    fn audit(&mut self, when: &str) -> Result<(), Failure> {
        let keys: Vec<String> = TICKS.iter().map(|(_, k)| k.to_string()).collect();
        for (ti, key) in keys.iter().enumerate() {
            let spells = TICKS[ti].0;
            for i in 0..5u8 {
                let spell = spells[(i as usize + self.seq as usize) % spells.len()];
                let r = self.inst.call("brc20_balance", json!([PKSCRIPTS[i as usize], spell]));
                let got = r.ok().and_then(|v| v.as_str().and_then(|s| U256::from_str_radix(s.trim_start_matches("0x"), 16).ok()));
                let want = self.led.b(key, pk_addr(i));
                if got != Some(want) {
                    fail!("C07/brc20_balance-differs-from-ledger", "{}: pkscript #{} ticker {:?} (spelled {:?}): {:?}, ledger {}", when, i, key, spell, r, want);
                }
            }
            let exists = *self.led.exists.get(key).unwrap_or(&false);
            let ta = self.token_addr(key);
            if exists != (ta != Address::ZERO) {
                fail!("C07/token-existence", "{}: ticker {:?}: token address {} but ledger says exists={}", when, key, ta, exists);
            }
            if exists {
                let ts = self.eth_call(ta, tok::totalSupplyCall {}.abi_encode()).filter(|o| o.len() >= 32).map(|o| U256::from_be_slice(&o[..32]));
                let mut sum = U256::ZERO;
                for h in self.holders() {
                    let d = ctrl_call("balanceOf(bytes,address)", balanceOfCall { ticker: Bytes::from(key.as_bytes().to_vec()), account: h }.abi_encode()[4..].to_vec());
                    let got = self.eth_call(controller(), d).filter(|o| o.len() >= 32).map(|o| U256::from_be_slice(&o[..32]));
                    let want = self.led.b(key, h);
                    if got != Some(want) {
                        fail!("C07/balance-differs-from-ledger", "{}: holder {} ticker {:?}: {:?}, ledger {}", when, h, key, got, want);
                    }
                    sum += want;
                }
                let net = self.led.deposited.get(key).cloned().unwrap_or_default() - self.led.withdrawn.get(key).cloned().unwrap_or_default();
                if ts != Some(sum) || sum != self.led.s(key) || sum != net {
                    fail!("C07/supply-not-conserved", "{}: ticker {:?}: totalSupply {:?}, sum of holders {}, deposits-withdrawals {}", when, key, ts, sum, net);
                }
            }
        }
        Ok(())
    }

    fn apply(&mut self, i: usize, op_: &LOp) -> Result<(), Failure> {
        let key = |t: u8| TICKS[t as usize % TICKS.len()].1.to_string();
        let spelling = |t: u8, s: u8| {
            let v = TICKS[t as usize % TICKS.len()].0;
            v[s as usize % v.len()].to_string()
        };
        match op_ {
            LOp::Deposit { to, tick, spell, amt } | LOp::Withdraw { from: to, tick, spell, amt } => {
                let is_dep = matches!(op_, LOp::Deposit { .. });
                let (k, sp, v) = (key(*tick), spelling(*tick, *spell), amount(*amt));
                self.spellings.entry(k.clone()).or_default().insert(sp.clone());
                let mut p = self.block_fields();
                let count = self.open.unwrap();
                p.insert(if is_dep { "to_pkscript" } else { "from_pkscript" }.into(), json!(PKSCRIPTS[*to as usize % PKSCRIPTS.len()]));
                p.insert("ticker".into(), json!(sp));
                p.insert("amount".into(), json!(format!("0x{:x}", v)));
                self.seq += 1;
                p.insert("inscription_id".into(), json!(format!("{}i0", hex::encode(keccak256(format!("c07b-{}", self.seq))))));
                let r = self.inst.call(if is_dep { "brc20_deposit" } else { "brc20_withdraw" }, Value::Object(p));
                let Resp::Ok(rc) = &r else { fail!("C07/bridge-call-rejected", "op {} {:?}: {:?}", i, op_, r) };
                self.open = Some(count + 1);
                let status = parse_u64(&rc["status"]) == Some(1);
                let a = pk_addr(*to);
                if rc["from"].as_str().map(|s| s.to_lowercase()) != Some(addr_hex(indexer_addr())) || rc["to"].as_str().map(|s| s.to_lowercase()) != Some(addr_hex(controller())) {
                    fail!("C07/bridge-call-parties", "op {}: from {} to {}", i, rc["from"], rc["to"]);
                }
                let expect = if is_dep { self.led.s(&k).checked_add(v).is_some() } else { self.led.b(&k, a) >= v && *self.led.exists.get(&k).unwrap_or(&false) };
                if status != expect {
                    fail!(
                        if is_dep { "C07/deposit-outcome" } else { "C07/withdraw-outcome" },
                        "op {} {:?}: status {} but the ledger (balance {}, supply {}) says {}",
                        i, op_, status, self.led.b(&k, a), self.led.s(&k), expect
                    );
                }
                if status {
                    if is_dep {
                        if let Some(l) = rc["logs"].as_array().and_then(|ls| ls.iter().find(|l| l["address"].as_str().map(|a| a.to_lowercase()) != Some(addr_hex(controller())))) {
                            if let Some(a) = l["address"].as_str().and_then(|a| a.parse::<Address>().ok()) {
                                self.tokens.insert(k.clone(), a);
                            }
                        }
                        self.led.exists.insert(k.clone(), true);
                        *self.led.bal.entry((k.clone(), a)).or_default() += v;
                        *self.led.supply.entry(k.clone()).or_default() += v;
                        *self.led.deposited.entry(k.clone()).or_default() += v;
                    } else {
                        *self.led.bal.entry((k.clone(), a)).or_default() -= v;
                        *self.led.supply.entry(k.clone()).or_default() -= v;
                        *self.led.withdrawn.entry(k.clone()).or_default() += v;
                    }
                } else {
                    self.failed_moves += 1;
                    if is_dep && !*self.led.exists.get(&k).unwrap_or(&false) {
                        // a failed first deposit reverts the token creation as well
                    }
                }
            }
            LOp::Transfer { level, from, tick, to, amt } => {
                let (k, v) = (key(*tick), amount(*amt));
                let (fa, ta) = (self.addr(from), self.addr(to));
                let (target, data) = if *level % 2 == 0 {
                    (controller(), ctrl_call("transfer(bytes,address,uint256)", ctransferCall { ticker: Bytes::from(k.as_bytes().to_vec()), to: ta, value: v }.abi_encode()[4..].to_vec()))
                } else {
                    (self.token_addr(&k), tok::transferCall { to: ta, value: v }.abi_encode())
                };
                if target == Address::ZERO {
                    return Ok(()); // no such token yet: a call to the zero address means nothing
                }
                let ok = self.submit(from, target, data)?;
                self.moved(i, op_, ok, &k, fa, ta, v)?;
            }
            LOp::Approve { level, from, tick, spender, amt } => {
                let (k, v) = (key(*tick), amount(*amt));
                let sa = self.addr(spender);
                let (target, data) = if *level % 2 == 0 {
                    (controller(), ctrl_call("approve(bytes,address,uint256)", capproveCall { ticker: Bytes::from(k.as_bytes().to_vec()), spender: sa, value: v }.abi_encode()[4..].to_vec()))
                } else {
                    (self.token_addr(&k), tok::approveCall { spender: sa, value: v }.abi_encode())
                };
                if target == Address::ZERO {
                    return Ok(());
                }
                self.submit(from, target, data)?;
            }
            LOp::TransferFrom { level, by, tick, owner, to, amt } => {
                let (k, v) = (key(*tick), amount(*amt));
                let (oa, ta) = (self.addr(owner), self.addr(to));
                let (target, data) = if *level % 2 == 0 {
                    (controller(), ctrl_call("transferFrom(bytes,address,address,uint256)", ctransferFromCall { ticker: Bytes::from(k.as_bytes().to_vec()), from: oa, to: ta, value: v }.abi_encode()[4..].to_vec()))
                } else {
                    (self.token_addr(&k), tok::transferFromCall { from: oa, to: ta, value: v }.abi_encode())
                };
                if target == Address::ZERO {
                    return Ok(());
                }
                let ok = self.submit(by, target, data)?;
                self.moved(i, op_, ok, &k, oa, ta, v)?;
            }
            LOp::Adversarial { kind, by, tick, victim, amt } => {
                let (k, v) = (key(*tick), amount(*amt).max(U256::from(1u64)));
                let va = self.addr(victim);
                let me = self.addr(by);
                let tb = Bytes::from(k.as_bytes().to_vec());
                let ta = self.token_addr(&k);
                let (target, data) = match kind % 8 {
                    0 => (controller(), ctrl_call("mint(bytes,address,uint256)", mintCall { ticker: tb, to: me, value: v }.abi_encode()[4..].to_vec())),
                    1 => (controller(), ctrl_call("burn(bytes,address,uint256)", burnCall { ticker: tb, from: va, value: v }.abi_encode()[4..].to_vec())),
                    2 => (ta, tok::mintCall { account: me, value: v }.abi_encode()),
                    3 => (ta, tok::burnCall { account: va, value: v }.abi_encode()),
                    4 => (ta, tok::owner::transferFromCall { spender: me, from: va, to: me, value: v }.abi_encode()),
                    5 => (ta, tok::owner::approveCall { owner: va, spender: me, value: U256::MAX }.abi_encode()),
                    6 => (controller(), transferOwnershipCall { newOwner: me }.abi_encode()),
                    _ => (ta, transferOwnershipCall { newOwner: me }.abi_encode()),
                };
                if target == Address::ZERO {
                    return Ok(());
                }
                self.adversarial += 1;
                let ok = self.submit(by, target, data)?;
                if ok {
                    // an owner-only function accepted a user transaction
                    fail!("C07/owner-only-function-accepted-a-user", "op {} {:?} succeeded", i, op_);
                }
            }
            LOp::Finalise => {
                self.open.get_or_insert(0);
                self.finalise()?;
                self.audit(&format!("after op {} (block {})", i, self.next_height() - 1))?;
            }
            LOp::Mine(n) => {
                if self.open.is_some() {
                    self.finalise()?;
                }
                let r = self.inst.call("brc20_mine", json!([*n, TS]));
                if !r.is_ok() {
                    fail!("C07/mine-failed", "{:?}", r);
                }
                for _ in 0..*n {
                    self.hef = self.hef.max(self.next_height());
                    self.snaps.push(self.led.clone());
                }
            }
            LOp::Commit => {
                if self.open.is_some() {
                    self.finalise()?;
                }
                let r = self.inst.call("brc20_commitToDatabase", json!([]));
                if !r.is_ok() {
                    fail!("C07/commit-failed", "{:?}", r);
                }
            }
            LOp::Reorg(d) => {
                if self.open.is_some() {
                    self.finalise()?;
                }
                let h = self.next_height() - 1;
                // never below the block that deployed the forwarding contract
                let n = h.saturating_sub(*d as u64).max(1);
                if n < h && self.hef - n <= 10 {
                    let r = self.inst.call("brc20_reorg", json!([n]));
                    if !r.is_ok() {
                        fail!("C07/reorg-refused", "op {} reorg({}) at {}: {:?}", i, n, h, r);
                    }
                    self.snaps.truncate(n as usize + 1);
                    self.led = self.snaps.last().unwrap().clone();
                    self.audit(&format!("after op {} reorg({})", i, n))?;
                }
            }
        }
        Ok(())
    }

    /// bookkeeping for a transfer-like user transaction: one-sided (a success must be covered by the
    /// balance; whether a covered transfer succeeds also depends on allowances, which the property leaves open)
    fn moved(&mut self, i: usize, op_: &LOp, ok: bool, k: &str, from: Address, to: Address, v: U256) -> Result<(), Failure> {
        if ok {
            if !*self.led.exists.get(k).unwrap_or(&false) {
                fail!("C07/transfer-of-a-token-that-does-not-exist", "op {} {:?} succeeded", i, op_);
            }
            if self.led.b(k, from) < v {
                fail!("C07/transfer-exceeding-the-balance-succeeded", "op {} {:?}: balance {} value {}", i, op_, self.led.b(k, from), v);
            }
            if to == Address::ZERO || from == Address::ZERO {
                fail!("C07/transfer-involving-the-zero-address-succeeded", "op {} {:?}", i, op_);
            }
            *self.led.bal.entry((k.to_string(), from)).or_default() -= v;
            *self.led.bal.entry((k.to_string(), to)).or_default() += v;
        } else {
            self.failed_moves += 1;
        }
        Ok(())
    }
}

pub fn check(case: &Case) -> CheckResult {
    let mut info = CaseInfo::default();
    let mut sim = Sim::new()?;
    for (i, op_) in case.ops.iter().enumerate() {
        sim.apply(i, op_)?;
    }
    if sim.open.is_some() {
        sim.finalise()?;
    }
    sim.audit("at the end")?;
    let two_spellings = sim.spellings.values().any(|s| s.len() >= 2);
    info.nontrivial = sim.failed_moves > 0 && sim.adversarial > 0 && two_spellings;
    info.class_if(sim.failed_moves > 0, "failed-withdrawal-or-transfer");
    info.class_if(sim.adversarial > 0, "adversarial-mint-burn-attempt");
    info.class_if(two_spellings, "2+-spellings-of-a-ticker");
    info.class_if(sim.led.bal.iter().any(|((_, a), v)| *a == sim.proxy && !v.is_zero()), "contract-holds-tokens");
    Ok(info)
}

impl Property for C07 {
    fn id(&self) -> &'static str {
        "C07"
    }
    fn run(&self, ctx: &Ctx, ev: &mut Evidence) -> Vec<Found> {
        ev.assumptions.push("ticker keys of the ledger model are hard-coded per spelling group (not computed with to_lowercase); transfers are checked one-sidedly (a success must be covered by the balance and must move exactly the value; whether a covered transfer succeeds depends on allowances, which the property leaves open); deposits and withdrawals are predicted exactly".into());
        let cfg = PartCfg {
            name: "ledger",
            rule: "random interleavings (10-70 ops) of deposits, withdrawals, controller- and token-level transfer/approve/transferFrom by 5 pkscripts, 2 signers and a forwarding contract, adversarial mint/burn/owner-only/ownership calls on controller and tokens, 7 tickers in several spellings (ASCII case, CJK, cased non-ASCII, empty), amounts from {0,1,7,50,1000,123456789,2^255,2^256-1}, mining, commits and reorgs; independent ledger model compared at every finalise, after every reorg and at the end (brc20_balance in a rotating spelling, balanceOf of every holder, totalSupply = sum = deposits - withdrawals). Non-trivial = >= 1 failed withdrawal/transfer and >= 1 adversarial attempt and >= 2 spellings of one ticker",
            cases: ctx.tier.pick(3000, 40_000),
            max_shrink_iters: ctx.tier.pick(300, 1200),
        };
        explore(ctx, ev, &cfg, strategy, check)
    }
    fn replay(&self, _part: &str, case: &Value) -> CheckResult {
        check(&decode_case::<Case>(case)?)
    }
}
