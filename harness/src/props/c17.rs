//! C17 — eth_call predicts what the same transaction will do.
use alloy::primitives::Address;
use proptest::prelude::*;
use serde::{Deserialize, Serialize};
use serde_json::{json, Value};

use crate::driver::Resp;
use crate::engine::*;
use crate::evm::{self, Act, Env, Prog, ProgCfg};
use crate::fail;
use crate::ops::*;
use crate::props::Property;

pub struct C17;

#[derive(Clone, Debug, Serialize, Deserialize)]
pub enum Sender {
    Pk(u8),
    Signer(u8),
}

#[derive(Clone, Debug, Serialize, Deserialize)]
pub enum What {
    Call(u16, u8, u8),
    Create(Prog),
}

#[derive(Clone, Debug, Serialize, Deserialize)]
pub struct Probe {
    pub sender: Sender,
    pub what: What,
}

#[derive(Clone, Debug, Serialize, Deserialize)]
pub struct Case {
    pub ops: Vec<Op>,
    pub probes: Vec<(u16, Probe)>,
}

impl Simplify for Case {
    fn simpler(&self) -> Vec<Self> {
        let mut v = vec![];
        for i in (0..self.probes.len()).rev() {
            if self.probes.len() > 1 {
                let mut p = self.probes.clone();
                p.remove(i);
                v.push(Case { ops: self.ops.clone(), probes: p });
            }
        }
        v.extend(simpler_vec(&self.ops, 1).into_iter().map(|ops| Case { ops, probes: self.probes.clone() }));
        v
    }
}

pub fn independent_cfg() -> HistCfg {
    let mut c = HistCfg::general();
    c.prog = ProgCfg::independent();
    c.max_ops = 30;
    c.w_reorg = 2;
    c.w_clear = 1;
    c.w_reopen = 1;
    c
}

/// a factory block that creates a child and returns its address (nonce-derived)
fn factory() -> impl Strategy<Value = Prog> {
    (evm::prog_strategy_sized(ProgCfg { depth: 0, ..ProgCfg::independent() }, 1, 1, 2), proptest::option::of(0u8..3)).prop_map(|(child, salt)| Prog {
        ctor: vec![],
        blocks: vec![vec![Act::Create { salt, child: Box::new(child), store: Some(5) }, Act::ReturnSlot { slot: 5 }]],
    })
}

fn probe() -> impl Strategy<Value = Probe> {
    let sender = prop_oneof![3 => (0u8..5).prop_map(Sender::Pk), 2 => (0u8..3).prop_map(Sender::Signer)];
    let what = prop_oneof![
        8 => (any::<u16>(), 0u8..5, 0u8..6).prop_map(|(t, s, a)| What::Call(t, s, a)),
        3 => evm::prog_strategy(ProgCfg::independent()).prop_map(What::Create),
        2 => factory().prop_map(What::Create),
    ];
    (sender, what).prop_map(|(sender, what)| Probe { sender, what })
}

fn strategy() -> BoxedStrategy<Case> {
    (history_strategy(independent_cfg()), proptest::collection::vec((any::<u16>(), probe()), 2..10)).prop_map(|(ops, probes)| Case { ops, probes }).boxed()
}

pub struct Sim {
    pub ok: bool,
    /// return data, or revert data
    pub data: String,
    pub raw: Resp,
}

pub fn simulate(r: &mut Runner, from: Address, to: Option<Address>, data: &[u8]) -> Sim {
    let mut o = serde_json::Map::new();
    o.insert("from".into(), json!(addr_hex(from)));
    if let Some(t) = to {
        o.insert("to".into(), json!(addr_hex(t)));
    }
    o.insert("data".into(), json!(format!("0x{}", hex::encode(data))));
    let raw = r.inst.call("eth_call", json!([Value::Object(o)]));
    match &raw {
        Resp::Ok(v) => Sim { ok: true, data: v.as_str().unwrap_or("").to_lowercase(), raw },
        Resp::Err { data, .. } => Sim { ok: false, data: data.as_ref().and_then(|d| d.as_str()).unwrap_or("0x").to_lowercase(), raw },
        Resp::Panic(_) => Sim { ok: false, data: "panic".into(), raw },
    }
}

/// submit the same sender/target/data as a transaction with the simulation's gas allowance (30 M)
pub fn submit(r: &mut Runner, sender: &Sender, to: Option<Address>, data: &[u8], len: u64) -> Result<Value, Failure> {
    let blk = Blk { hash: HashSel::Fresh, ts: 4242 };
    let before = r.events.len();
    match sender {
        Sender::Pk(i) => match to {
            Some(t) => {
                // direct request (the runner's Call op picks targets by index)
                r.raw_tx(
                    "brc20_call",
                    json!({"from_pkscript": PKSCRIPTS[*i as usize % 5], "contract_address": addr_hex(t), "data": format!("0x{}", hex::encode(data))}),
                    &blk,
                    len,
                    false,
                );
            }
            None => {
                r.raw_tx("brc20_deploy", json!({"from_pkscript": PKSCRIPTS[*i as usize % 5], "data": format!("0x{}", hex::encode(data))}), &blk, len, true);
            }
        },
        Sender::Signer(i) => {
            let n = r.account_nonce(signer_addr(*i));
            let kind = match to {
                Some(t) => alloy::primitives::TxKind::Call(t),
                None => alloy::primitives::TxKind::Create,
            };
            let raw = sign_legacy(*i, Some(crate::driver::chain_id()), n, kind, data.to_vec());
            r.raw_tx("brc20_transact", json!({"raw_tx_data": format!("0x{}", hex::encode(raw))}), &blk, len, to.is_none());
        }
    }
    let ev = r.events[before..].last().cloned();
    match ev.map(|e| e.resp) {
        Some(Resp::Ok(v)) => {
            let rc = if v.is_array() { v.get(0).cloned().unwrap_or(Value::Null) } else { v };
            if rc.is_null() {
                return Err(Failure::new("C17/transaction-not-executed", "no receipt returned".to_string()));
            }
            Ok(rc)
        }
        o => Err(Failure::new("C17/transaction-rejected", format!("{:?}", o))),
    }
}

pub fn check(case: &Case) -> CheckResult {
    let mut info = CaseInfo::default();
    let mut r = Runner::new("c17");
    let n = case.ops.len().max(1);
    let mut nontrivial = 0;
    for (i, op) in case.ops.iter().enumerate() {
        r.apply(i, op);
        if let Some(p) = r.events.last().filter(|e| e.resp.is_panic()) {
            fail!("C17/panic", "op {} {}: {:?}", i, p.req.method, p.resp);
        }
        let last = i + 1 == case.ops.len();
        for (pos, pr) in &case.probes {
            if pick_idx(*pos, n) != i {
                continue;
            }
            r.to_boundary();
            let contracts = r.env_contracts();
            let env = Env { contracts: &contracts, controller: controller() };
            let from = match &pr.sender {
                Sender::Pk(i) => pk_addr(*i),
                Sender::Signer(i) => signer_addr(*i),
            };
            let (to, data, touches_state) = match &pr.what {
                What::Call(t, s, a) => {
                    if contracts.is_empty() {
                        continue;
                    }
                    (Some(evm::pick(&contracts, *t).unwrap()), evm::calldata(*s, evm::const_val(*a)), true)
                }
                What::Create(p) => (None, evm::build_init(p, &env), true),
            };
            let sim = simulate(&mut r, from, to, &data);
            if sim.raw.is_panic() {
                fail!("C17/panic", "eth_call: {:?}", sim.raw);
            }
            let rc = submit(&mut r, &pr.sender, to, &data, 2500)?;
            let status = parse_u64(&rc["status"]) == Some(1);
            let th = rc["transactionHash"].as_str().unwrap_or("").to_string();
            let what = format!("after op {}: {:?} from {} to {:?} data 0x{}", i, pr.sender, from, to, hex::encode(&data[..data.len().min(40)]));
            if status != sim.ok {
                fail!("C17/success-flag-differs", "{}: eth_call said {} ({}), the transaction's status is {}", what, sim.ok, crate::observe::short(&sim.raw.to_json()), rc["status"]);
            }
            let tr = r.inst.call("debug_traceTransaction", json!([th]));
            if std::env::var("VERIF_VERBOSE").is_ok() {
                eprintln!("trace response: {}", crate::observe::short(&tr.to_json()));
            }
            let out = match &tr {
                Resp::Ok(t) if !t.is_null() => t["output"].as_str().unwrap_or("0x").to_lowercase(),
                other => fail!("C17/trace-not-served", "{}: debug_traceTransaction({}) -> {}", what, th, crate::observe::short(&other.to_json())),
            };
            match (&pr.what, status) {
                (What::Create(_), true) => {
                    let ca = rc["contractAddress"].as_str().unwrap_or("").to_string();
                    let code = r.inst.call("eth_getCode", json!([ca])).ok().and_then(|c| c.as_str().map(|s| s.to_lowercase())).unwrap_or_default();
                    let norm = |s: &str| s.trim_start_matches("0x").to_string();
                    if norm(&code) != norm(&sim.data) {
                        fail!("C17/simulated-creation-returns-other-code-than-installed", "{}: simulated {} installed {}", what, sim.data, code);
                    }
                    info.class("creation");
                }
                _ => {
                    if out != sim.data && !(sim.data == "0x" && out.is_empty()) {
                        fail!(if status { "C17/return-data-differs" } else { "C17/revert-data-differs" }, "{}: eth_call gave {}, the transaction's trace output is {}", what, sim.data, out);
                    }
                    info.class(if status { "call-success" } else { "call-failure" });
                }
            }
            if touches_state {
                nontrivial += 1;
            }
        }
        let _ = last;
    }
    info.nontrivial = nontrivial > 0;
    Ok(info)
}

impl Property for C17 {
    fn id(&self) -> &'static str {
        "C17"
    }
    fn run(&self, ctx: &Ctx, ev: &mut Evidence) -> Vec<Found> {
        ev.assumptions.push("generated code is context-independent by construction (no TIMESTAMP, PREVRANDAO, GAS, txid helper; call gas arguments are constants); the transaction gets the simulation's gas allowance (2500 bytes = 30 M gas = configured eth_call limit)".into());
        let cfg = PartCfg {
            name: "predict",
            rule: "random chain states (generated histories of context-independent contracts incl. reorgs/clears) and 2-9 probes per history at generated boundaries: a call of a known contract or a creation (incl. factories that CREATE/CREATE2 a child and return its address) by a pkscript or a signer, first as eth_call with the derived sender, then as brc20_call / brc20_deploy / brc20_transact; success flags must agree, the trace output must equal the simulated return/revert data, a simulated creation must return exactly the installed runtime code. Every probe touches pre-existing state or creates (non-trivial = at least one probe executed)",
            cases: ctx.tier.pick(1500, 20_000),
            max_shrink_iters: ctx.tier.pick(300, 1200),
        };
        explore(ctx, ev, &cfg, strategy, check)
    }
    fn replay(&self, _part: &str, case: &Value) -> CheckResult {
        check(&decode_case::<Case>(case)?)
    }
}
