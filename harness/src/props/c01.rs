//! C01 — an accepted reorg restores exactly the state as of the chosen block.
use proptest::prelude::*;
use serde::{Deserialize, Serialize};
use serde_json::Value;

use crate::driver::Instance;
use crate::engine::*;
use crate::fail;
use crate::observe::{self, observe};
use crate::ops::*;
use crate::props::Property;

pub struct C01;

#[derive(Clone, Debug, Serialize, Deserialize)]
pub struct Case {
    pub ops: Vec<Op>,
}

impl Simplify for Case {
    fn simpler(&self) -> Vec<Self> {
        simpler_vec(&self.ops, 1).into_iter().map(|ops| Case { ops }).collect()
    }
}

pub fn hist_cfg() -> HistCfg {
    let mut c = HistCfg::general();
    c.w_reorg = 9;
    c.w_mine = 8;
    c
}

fn strategy() -> BoxedStrategy<Case> {
    history_strategy(hist_cfg()).prop_map(|ops| Case { ops }).boxed()
}

/// structured histories aimed at the edges of the 10-block window: a signed transaction is parked, 8-10
/// blocks later the same nonce is submitted again (replacement) or another one is parked, and a reorg of
/// depth 9-11 follows with or without finalising the block that only holds the parked transaction
fn edge_strategy() -> BoxedStrategy<Case> {
    let c = hist_cfg();
    (
        proptest::collection::vec(op_strategy(c), 0..4),
        (0u8..3, 1i8..5, payload_strategy(c.prog), payload_strategy(c.prog)),
        prop_oneof![Just(7u8), Just(8), Just(9), Just(10)],
        (any::<bool>(), prop_oneof![Just(9u8), Just(10), Just(11)], any::<bool>()),
        proptest::collection::vec(op_strategy(c), 0..6),
    )
        .prop_map(|(pre, (signer, off, p1, p2), gap, (same_nonce, depth, keep_soft), post)| {
            let b = Blk { hash: HashSel::Fresh, ts: 7 };
            let mut ops = vec![Op::Init { hash: HashSel::Fresh, ts: 1 }];
            ops.extend(pre);
            ops.push(Op::Finalise { blk: b.clone() });
            ops.push(Op::Transact { signer, nonce: NonceSel::Offset(off), payload: p1, len: Len::Std, blk: b.clone(), b64: false, txid: 0 });
            ops.push(Op::Finalise { blk: b.clone() });
            ops.push(Op::Mine { n: gap, ts: 3 });
            ops.push(Op::Transact { signer, nonce: NonceSel::Offset(if same_nonce { off } else { off + 1 }), payload: p2, len: Len::Std, blk: b.clone(), b64: false, txid: 1 });
            ops.push(Op::Reorg { depth, keep_soft });
            ops.extend(post);
            Case { ops }
        })
        .boxed()
}

/// compare A with a fresh instance fed only the surviving chain
pub fn compare_with_fresh(a: &mut Runner, sigbase: &str, when: &str) -> Result<(), Failure> {
    let reqs = a.model.effective_requests();
    let mut b = Instance::fresh("fresh");
    if let Err(e) = replay_requests(&mut b, &reqs) {
        let kind = if e.contains("differs") { "replayed-response-differs" } else { "replay-refused" };
        return Err(Failure::new(format!("{}/{}", sigbase, kind), format!("{}: {}", when, e)));
    }
    let oa = observe(&mut a.inst, &a.uni);
    let ob = observe(&mut b, &a.uni);
    differs(&oa, &ob, sigbase, when)
}

/// signature = first differing query method that is not a known finding (else the first known one)
pub fn differs(oa: &observe::Obs, ob: &observe::Obs, sigbase: &str, when: &str) -> Result<(), Failure> {
    let known = crate::known_sigs();
    let mut first_known: Option<Failure> = None;
    for ((qa, va), (_, vb)) in oa.iter().zip(ob.iter()) {
        if va != vb {
            let method = qa.split(' ').next().unwrap_or("");
            let sig = format!("{}/differs:{}", sigbase, method);
            let f = Failure::new(sig.clone(), format!("{}: {} :: {}", when, qa, observe::json_diff(va, vb, "").unwrap_or_default()));
            if known.contains(&sig) {
                if first_known.is_none() {
                    first_known = Some(f);
                }
            } else {
                return Err(f);
            }
        }
    }
    match first_known {
        Some(f) => Err(f),
        None => Ok(()),
    }
}

pub fn check(case: &Case) -> CheckResult {
    let mut info = CaseInfo::default();
    let mut a = Runner::new("c01");
    let mut accepted_nontrivial = 0;
    let mut soft_reorged_at_hef: Option<u64> = None;
    for (i, op) in case.ops.iter().enumerate() {
        if let Op::Reorg { depth, keep_soft } = op {
            let soft = *keep_soft && a.soft_open();
            if !soft {
                a.to_boundary();
            }
            let Some(h) = a.model.height() else { continue };
            let n = h.saturating_sub(*depth as u64);
            let expected = a.model.reorg_accepted(n).unwrap();
            let before = if !expected || n == h { Some(observe(&mut a.inst, &a.uni)) } else { None };
            let orphan_state = a.model.blocks[(n as usize + 1).min(a.model.blocks.len())..].iter().any(|b| b.state_changing);
            let was_committed = a.model.committed as u64 > n + 1;
            let hef_before = a.model.hef;
            let r = a.reorg_to(n);
            if soft && r.is_ok() {
                // the unfinalised block's pool writes (versioned hef+1) are rolled back but what they pruned stays pruned
                soft_reorged_at_hef = hef_before;
            }
            if let crate::driver::Resp::Panic(m) = &r {
                // same root cause, later manifestation: after an accepted reorg over such a block the row has lost the
                // version an accepted reorg to exactly hef-10 needs (only that target can be affected: see DESIGN 4 #13)
                let tainted = soft || (soft_reorged_at_hef.is_some() && soft_reorged_at_hef == hef_before);
                if tainted && m.contains("Reorg too deep") && expected && hef_before == Some(n + 10) {
                    // known finding (see KNOWN_FINDINGS.txt): pool rows written for a block that is not finalised
                    // yet are pruned relative to that block, one block further than an accepted reorg may reach
                    fail!("C01/reorg-inside-window-panics-with-parked-tx-in-unfinalised-block", "op {} reorg({}) at height {} (hef {:?}) with a parked transaction in the unfinalised block: {}", i, n, h, a.model.hef, m);
                }
                fail!("C01/reorg-panicked", "op {} reorg({}) at height {}: {:?}", i, n, h, r);
            }
            info.class_if(soft, "reorg-with-parked-tx-in-unfinalised-block");
            if n == h {
                // a no-op either way: nothing may change
                let after = observe(&mut a.inst, &a.uni);
                if let Some(d) = observe::diff_detailed(before.as_ref().unwrap(), &after) {
                    fail!("C01/noop-reorg-changed-state", "op {} reorg({}) at height {}: {}", i, n, h, d);
                }
                info.class("reorg-to-current-height");
                continue;
            }
            if expected && !r.is_ok() {
                fail!("C01/reorg-refused-inside-window", "op {} reorg({}) at height {} hef {:?}: {:?}", i, n, h, a.model.hef, r);
            }
            if !expected && r.is_ok() {
                fail!("C01/reorg-accepted-outside-window", "op {} reorg({}) at height {} hef {:?} was accepted", i, n, h, a.model.hef);
            }
            if !expected {
                let after = observe(&mut a.inst, &a.uni);
                if let Some(d) = observe::diff_detailed(before.as_ref().unwrap(), &after) {
                    fail!("C01/refused-reorg-changed-state", "op {} reorg({}) at height {}: {}", i, n, h, d);
                }
                info.class("reorg-refused");
                continue;
            }
            info.class("reorg-accepted");
            info.class_if(was_committed, "reorg-after-commit");
            info.class_if(!was_committed, "reorg-before-commit");
            info.class_if(orphan_state, "reorg-orphans-state");
            info.class_if(a.stats.reopens > 0, "reorg-after-reopen");
            info.class_if(a.stats.reorg_accepted > 1, "second-reorg");
            if orphan_state {
                accepted_nontrivial += 1;
            }
            compare_with_fresh(&mut a, "C01", &format!("after op {} reorg({}) from height {}", i, n, h))?;
        } else {
            a.apply(i, op);
        }
        if let Some(p) = a.events.last().filter(|e| e.resp.is_panic()) {
            fail!("C01/panic", "op {} {}: {:?}", i, p.req.method, p.resp);
        }
    }
    a.to_boundary();
    if a.stats.reorg_accepted > 0 {
        compare_with_fresh(&mut a, "C01", "at the end of the history (after regrowth)")?;
        info.class("final-compare-after-regrowth");
    }
    if !a.anomalies.is_empty() {
        fail!("C01/conformant-call-failed", "{}", a.anomalies.join("; "));
    }
    info.nontrivial = accepted_nontrivial > 0;
    info.class_if(a.stats.parked > 0, "parked-tx");
    info.class_if(a.stats.drained > 0, "drained-tx");
    info.class_if(a.stats.clears > 0, "clear");
    info.class_if(a.stats.commits > 0, "commit");
    Ok(info)
}

impl Property for C01 {
    fn id(&self) -> &'static str {
        "C01"
    }
    fn run(&self, ctx: &Ctx, ev: &mut Evidence) -> Vec<Found> {
        ev.assumptions.push("reference = fresh instance fed the concrete requests of the surviving chain (harness chain model decides which blocks survive commit/clear/reopen/reorg)".into());
        let cfg = PartCfg {
            name: "history",
            rule: "random call histories (all op kinds, commits/clears/reopens, several reorgs inside and outside the window); non-trivial = an accepted reorg below the current height that orphans at least one state-changing block; distinct by serialised history",
            cases: ctx.tier.pick(900, 12_000),
            max_shrink_iters: ctx.tier.pick(250, 1000),
        };
        let mut found = explore(ctx, ev, &cfg, strategy, check);
        let edge = PartCfg {
            name: "window-edge",
            rule: "structured histories: random prefix, a parked signed transaction, 7-10 mined blocks, a replacement of the same nonce or a second parked nonce, then a reorg of depth 9-11 issued with or without finalising the block that only holds the parked transaction, random suffix; same oracle and non-triviality rule",
            cases: ctx.tier.pick(240, 4000),
            max_shrink_iters: ctx.tier.pick(250, 1000),
        };
        found.extend(explore(ctx, ev, &edge, edge_strategy, check));
        found
    }
    fn replay(&self, _part: &str, case: &Value) -> CheckResult {
        check(&decode_case::<Case>(case)?)
    }
}
