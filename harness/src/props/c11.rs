//! C11 — concurrent readers and the indexer can never deadlock the server.
//!
//! The harness owns the schedule through the lock recorder hook: request A is paused right before
//! its k-th lock acquisition, request B runs on a second thread until it completes or blocks, then A
//! is resumed. A deadlock is decided structurally (both threads wait, each blocked by the other or
//! by a queued writer), never by elapsed time.
use std::collections::HashMap;
use std::sync::{Arc, Condvar, Mutex};
use std::thread::ThreadId;
use std::time::{Duration, Instant};

use brc20_prog::verif as v;
use serde_json::{json, Value};

use crate::driver::{raw_on, Resp};
use crate::engine::*;
use crate::fail;
use crate::props::Property;
use crate::rpcgen::{executing_read, well_typed, Fixture};

pub struct C11;

#[derive(Clone, Debug)]
struct Held {
    lock: usize,
    write: bool,
    site: String,
}

#[derive(Default, Debug)]
struct Th {
    held: Vec<Held>,
    waiting: Option<Held>,
    acquisitions: usize,
    paused: bool,
    done: bool,
}

#[derive(Default)]
struct Rec {
    threads: HashMap<ThreadId, Th>,
    /// (thread, k): pause that thread right before its k-th (1-based) acquisition
    pause_at: Option<(ThreadId, usize)>,
    resume: bool,
    /// discipline breaches seen (site pairs)
    reacquire: Vec<String>,
    order: Vec<String>,
    names: HashMap<usize, &'static str>,
    contended: bool,
}

struct Shared {
    rec: Mutex<Rec>,
    cv: Condvar,
}

fn site(e: &v::LockEvent) -> String {
    let f = e.file.rsplit('/').next().unwrap_or(e.file);
    format!("{}:{}", f, e.line)
}

fn install(shared: Arc<Shared>) {
    let s = shared.clone();
    v::set_lock_hook(Some(Arc::new(move |e: &v::LockEvent| {
        let mut r = s.rec.lock().unwrap();
        let tid = e.thread;
        if !r.threads.contains_key(&tid) {
            return; // not a thread under test (e.g. CONFIG reads during set-up)
        }
        match e.phase {
            v::LockPhase::Before => {
                let h = Held { lock: e.lock, write: e.write, site: site(e) };
                {
                    let t = r.threads.get(&tid).unwrap();
                    if let Some(prev) = t.held.iter().find(|x| x.lock == e.lock) {
                        let msg = format!("{} ({}) while holding it from {} ({})", h.site, if e.write { "write" } else { "read" }, prev.site, if prev.write { "write" } else { "read" });
                        if !r.reacquire.contains(&msg) {
                            r.reacquire.push(msg);
                        }
                    }
                }
                let k = {
                    let t = r.threads.get_mut(&tid).unwrap();
                    t.acquisitions += 1;
                    t.waiting = Some(h);
                    t.acquisitions
                };
                if r.pause_at == Some((tid, k)) {
                    r.threads.get_mut(&tid).unwrap().paused = true;
                    s.cv.notify_all();
                    while !r.resume {
                        r = s.cv.wait(r).unwrap();
                    }
                    r.threads.get_mut(&tid).unwrap().paused = false;
                }
            }
            v::LockPhase::Acquired => {
                let t = r.threads.get_mut(&tid).unwrap();
                if let Some(w) = t.waiting.take() {
                    t.held.push(w);
                }
            }
            v::LockPhase::Released => {
                let t = r.threads.get_mut(&tid).unwrap();
                if let Some(p) = t.held.iter().rposition(|x| x.lock == e.lock && x.write == e.write) {
                    t.held.remove(p);
                }
            }
        }
        s.cv.notify_all();
    })));
}

/// is thread `x` (which is waiting) blocked, given everybody's held / waiting sets?
fn blocked(r: &Rec, x: ThreadId) -> Option<String> {
    let t = r.threads.get(&x)?;
    let w = t.waiting.as_ref()?;
    if t.paused {
        return None;
    }
    for (y, ty) in &r.threads {
        for h in &ty.held {
            if h.lock != w.lock {
                continue;
            }
            if *y != x && (w.write || h.write) {
                return Some(format!("{} wants {} at {} but it is {}-held from {}", lbl(x, r), mode(w.write), w.site, mode(h.write), h.site));
            }
            if *y == x && (w.write || h.write) {
                return Some(format!("{} wants {} at {} while holding it itself from {}", lbl(x, r), mode(w.write), w.site, h.site));
            }
        }
    }
    if !w.write {
        // writer preference: a reader queues behind a waiting writer as long as the lock is held by anyone
        let held_by_anyone = r.threads.values().any(|ty| ty.held.iter().any(|h| h.lock == w.lock));
        for (y, ty) in &r.threads {
            if *y != x {
                if let Some(wy) = &ty.waiting {
                    if wy.lock == w.lock && wy.write && held_by_anyone && !ty.paused {
                        return Some(format!("{} wants read at {} behind the writer queued at {}", lbl(x, r), w.site, wy.site));
                    }
                }
            }
        }
    }
    None
}

fn mode(w: bool) -> &'static str {
    if w {
        "write"
    } else {
        "read"
    }
}

fn lbl(t: ThreadId, r: &Rec) -> String {
    let mut ids: Vec<&ThreadId> = r.threads.keys().collect();
    ids.sort_by_key(|i| format!("{:?}", i));
    if ids.first() == Some(&&t) {
        "thread-1".into()
    } else {
        "thread-2".into()
    }
}

enum Outcome {
    /// A made fewer than k acquisitions
    NoSuchPoint,
    Completed { contended: bool },
    Deadlock(String),
    Watchdog(String),
}

fn request(method: &str, params: &Value) -> String {
    json!({"jsonrpc": "2.0", "id": 1, "method": method, "params": params}).to_string()
}

fn run_schedule(shared: &Arc<Shared>, methods: &jsonrpsee::Methods, a: (String, Value), b: (String, Value), k: usize) -> Outcome {
    {
        let mut r = shared.rec.lock().unwrap();
        r.threads.clear();
        r.pause_at = None;
        r.resume = false;
        r.contended = false;
    }
    let spawn = |name: &'static str, req: String, pause: Option<usize>| {
        let shared = shared.clone();
        let methods = methods.clone();
        std::thread::Builder::new()
            .name(name.into())
            .stack_size(16 << 20)
            .spawn(move || {
                let tid = std::thread::current().id();
                {
                    let mut r = shared.rec.lock().unwrap();
                    r.threads.insert(tid, Th::default());
                    if let Some(k) = pause {
                        r.pause_at = Some((tid, k));
                    }
                }
                let resp = raw_on(&methods, &req);
                let mut r = shared.rec.lock().unwrap();
                if let Some(t) = r.threads.get_mut(&tid) {
                    t.done = true;
                    t.waiting = None;
                }
                shared.cv.notify_all();
                resp
            })
            .expect("spawn")
    };
    let deadline = Instant::now() + Duration::from_secs(30);
    let ta = spawn("A", request(&a.0, &a.1), Some(k));
    let a_id = ta.thread().id();
    // wait until A is paused or done
    {
        let mut r = shared.rec.lock().unwrap();
        loop {
            let st = r.threads.get(&a_id);
            if st.map(|t| t.paused || t.done).unwrap_or(false) {
                break;
            }
            let (g, to) = shared.cv.wait_timeout(r, Duration::from_millis(200)).unwrap();
            r = g;
            if to.timed_out() && Instant::now() > deadline {
                return Outcome::Watchdog(format!("A={} did not reach its acquisition #{}", a.0, k));
            }
        }
        if r.threads.get(&a_id).map(|t| t.done).unwrap_or(false) {
            drop(r);
            let _ = ta.join();
            return Outcome::NoSuchPoint;
        }
    }
    let tb = spawn("B", request(&b.0, &b.1), None);
    let b_id = tb.thread().id();
    // wait until B is done or blocked
    let mut contended = false;
    {
        let mut r = shared.rec.lock().unwrap();
        loop {
            let done = r.threads.get(&b_id).map(|t| t.done).unwrap_or(false);
            if done {
                break;
            }
            if r.threads.contains_key(&b_id) && blocked(&r, b_id).is_some() {
                contended = true;
                break;
            }
            let (g, to) = shared.cv.wait_timeout(r, Duration::from_millis(50)).unwrap();
            r = g;
            if to.timed_out() && Instant::now() > deadline {
                // B neither finished nor is structurally blocked: inconclusive
                r.resume = true;
                shared.cv.notify_all();
                return Outcome::Watchdog(format!("B={} neither completed nor blocked while A={} was paused before acquisition #{}", b.0, a.0, k));
            }
        }
        r.resume = true;
        shared.cv.notify_all();
    }
    // wait until both are done, or both are blocked
    let mut r = shared.rec.lock().unwrap();
    loop {
        let a_done = r.threads.get(&a_id).map(|t| t.done).unwrap_or(false);
        let b_done = r.threads.get(&b_id).map(|t| t.done).unwrap_or(false);
        if a_done && b_done {
            break;
        }
        let ba = if a_done { None } else { blocked(&r, a_id) };
        let bb = if b_done { None } else { blocked(&r, b_id) };
        let stuck = match (a_done, b_done) {
            (false, false) => ba.is_some() && bb.is_some(),
            (false, true) => ba.is_some(),
            (true, false) => bb.is_some(),
            _ => false,
        };
        if stuck {
            // re-check after a short grace period that nothing moved (the recorder state is exact once a
            // thread has reported Before: its earlier releases have all been recorded)
            let snapshot = format!("{:?}{:?}", ba, bb);
            let (g, _) = shared.cv.wait_timeout(r, Duration::from_millis(300)).unwrap();
            r = g;
            let ba2 = if r.threads.get(&a_id).map(|t| t.done).unwrap_or(false) { None } else { blocked(&r, a_id) };
            let bb2 = if r.threads.get(&b_id).map(|t| t.done).unwrap_or(false) { None } else { blocked(&r, b_id) };
            if format!("{:?}{:?}", ba2, bb2) == snapshot {
                let msg = format!(
                    "A = {} paused before its lock acquisition #{}, B = {} started, A resumed: wait-for cycle: [{}] and [{}]",
                    a.0,
                    k,
                    b.0,
                    ba2.unwrap_or_else(|| "done".into()),
                    bb2.unwrap_or_else(|| "done".into())
                );
                // the two threads are stuck for good: leak them
                return Outcome::Deadlock(msg);
            }
            continue;
        }
        let (g, to) = shared.cv.wait_timeout(r, Duration::from_millis(100)).unwrap();
        r = g;
        if to.timed_out() && Instant::now() > deadline + Duration::from_secs(30) {
            return Outcome::Watchdog(format!("A={} B={} k={} neither finished nor deadlocked structurally", a.0, b.0, k));
        }
    }
    drop(r);
    let _ = ta.join();
    let _ = tb.join();
    Outcome::Completed { contended }
}

const B_SET: [&str; 8] = ["brc20_clearCaches", "brc20_commitToDatabase", "eth_call", "brc20_finaliseBlock", "brc20_deposit", "eth_getBlockByNumber", "brc20_mine", "brc20_reorg"];

fn schedule_space(methods: &[&'static str]) -> Vec<(usize, usize, bool)> {
    // (index of A, index of B, mid-block state)
    let mut v = vec![];
    for (ai, a) in methods.iter().enumerate() {
        for (bi, b) in B_SET.iter().enumerate() {
            for mid in [false, true] {
                // executing reads wait (without holding locks) for the block to be finalised: pair them mid-block
                // only with the calls that end the wait
                if mid && executing_read(a) && !matches!(*b, "brc20_finaliseBlock" | "brc20_clearCaches") {
                    continue;
                }
                if mid && executing_read(b) {
                    continue;
                }
                // a B that opens a block makes an executing read wait 5 s per simulation by design (no lock held)
                if executing_read(a) && *b == "brc20_deposit" {
                    continue;
                }
                v.push((ai, bi, mid));
            }
        }
    }
    v
}

fn run_item(fx: &mut Fixture, shared: &Arc<Shared>, methods: &[&'static str], item: (usize, usize, bool), max_k: usize) -> (CheckResult, Value) {
    let (ai, bi, mid) = item;
    let (a, b) = (methods[ai], B_SET[bi]);
    let mut info = CaseInfo::default();
    let mut schedules = 0u64;
    let mut desc = json!({"A": a, "B": b, "mid_block": mid});
    // a fresh populated chain for every triple: earlier triples (reorg, mine, clearCaches ...) must not
    // erode the objects the requests refer to (a lookup of a block that no longer exists skips code paths)
    *fx = Fixture::new("c11");
    for k in 1..=max_k {
        // within a triple: re-create the chain as soon as the referenced block is gone
        if !fx.inst.call("eth_getBlockByHash", json!([fx.ctx.block_hash, false])).is_ok() {
            *fx = Fixture::new("c11");
        }
        fx.refresh(mid);
        let pa = well_typed(a, &fx.ctx);
        let mut cb = fx.ctx.clone();
        cb.seq += 1000;
        let pb = well_typed(b, &cb);
        let m = fx.inst.methods();
        match run_schedule(shared, &m, (a.to_string(), pa), (b.to_string(), pb), k) {
            Outcome::NoSuchPoint => break,
            Outcome::Completed { contended } => {
                schedules += 1;
                if contended {
                    info.nontrivial = true;
                    info.class("B-contended-on-a-lock-A-held");
                }
            }
            Outcome::Deadlock(msg) => {
                desc["k"] = json!(k);
                return (Err(Failure::new(format!("C11/deadlock:{}+{}", a, b), msg)), desc);
            }
            Outcome::Watchdog(msg) => {
                desc["k"] = json!(k);
                return (Err(Failure::new("harness/watchdog", msg)), desc);
            }
        }
    }
    info.weight = schedules.max(1);
    // discipline notes collected so far
    {
        let r = shared.rec.lock().unwrap();
        if !r.reacquire.is_empty() {
            info.class("static-note:lock-reacquired-while-held");
        }
    }
    (Ok(info), desc)
}

impl Property for C11 {
    fn id(&self) -> &'static str {
        "C11"
    }
    fn run(&self, ctx: &Ctx, ev: &mut Evidence) -> Vec<Found> {
        ev.assumptions.push("schedules explored: two threads, one preemption point (A paused right before its k-th lock acquisition, for every k), B from a set of 8 writers/readers, two engine states; std::sync::RwLock semantics on Linux (readers queue behind a waiting writer). Deadlocks needing three threads or two preemptions are out of reach; absence beyond these bounds is not claimed".into());
        let shared = Arc::new(Shared { rec: Mutex::new(Rec::default()), cv: Condvar::new() });
        install(shared.clone());
        let fx = Fixture::new("c11");
        let methods: Vec<&'static str> = fx.inst.method_names();
        let space = schedule_space(&methods);
        let total = space.len() as u64;
        let fx = Mutex::new(fx);
        let max_k = ctx.tier.pick(24, 64);
        let found = explore_indexed(
            ctx,
            ev,
            "schedules",
            &format!("every registered method A ({}) x B in {:?} x {{block boundary, one transaction into a block}} x every preemption point k (A paused before its k-th SharedData lock acquisition until B completes or blocks): {} (A,B,state) triples; a violation is a structural wait-for cycle in the recorder state. Non-trivial = a triple in which B contended on a lock A held; evaluations are weighted by the number of schedules (k values) run", methods.len(), B_SET, total),
            total,
            |i| run_item(&mut fx.lock().unwrap(), &shared, &methods, space[i as usize], max_k),
        );
        if !is_worker() {
            let r = shared.rec.lock().unwrap();
            ev.extra.insert("methods".into(), json!(methods.len()));
            ev.extra.insert("triples".into(), json!(total));
            ev.extra.insert("reacquire_notes".into(), json!(r.reacquire));
            ev.exhaustive = Some(true);
        }
        v::set_lock_hook(None);
        found
    }
    fn replay(&self, _part: &str, case: &Value) -> CheckResult {
        let d = &case["desc"];
        let shared = Arc::new(Shared { rec: Mutex::new(Rec::default()), cv: Condvar::new() });
        install(shared.clone());
        let mut fx = Fixture::new("c11r");
        let methods: Vec<&'static str> = fx.inst.method_names();
        let (a, b) = (d["A"].as_str().unwrap_or(""), d["B"].as_str().unwrap_or(""));
        let Some(ai) = methods.iter().position(|m| *m == a) else { fail!("harness/replay", "unknown method {}", a) };
        let Some(bi) = B_SET.iter().position(|m| *m == b) else { fail!("harness/replay", "unknown method {}", b) };
        let (r, _) = run_item(&mut fx, &shared, &methods, (ai, bi, d["mid_block"].as_bool().unwrap_or(false)), 64);
        v::set_lock_hook(None);
        r
    }
}
