//! C12 — without credentials nobody can drive the indexer interface.
use alloy::primitives::keccak256;
use serde_json::{json, Value};

use crate::driver::fresh_dir;
use crate::engine::*;
use crate::fail;
use crate::http::{basic, config, free_port, post, Server};
use crate::ops::*;
use crate::props::Property;
use crate::rpcgen::{well_typed, ReqCtx, RUNTIME_STORE};

pub struct C12;

const USER: &str = "indexer";
const PASS: &str = "s3cret";

fn creds(kind: u8) -> (Vec<String>, bool, &'static str) {
    match kind {
        0 => (vec![], false, "no header"),
        1 => (vec![basic("someone", PASS)], false, "wrong user"),
        2 => (vec![basic(USER, "wrong")], false, "wrong password"),
        3 => (vec!["Authorization: Basic !!!notbase64".into()], false, "malformed header"),
        4 => (vec![format!("Authorization: Bearer {}", basic(USER, PASS).rsplit(' ').next().unwrap())], false, "non-Basic scheme"),
        5 => (vec![basic(USER, &format!("{} ", PASS))], false, "password with trailing space"),
        // near-misses of the correct header value: prefixes, the bare scheme, an empty value, an extension
        6 => (vec![{ let h = basic(USER, PASS); h[..h.len() - 1].to_string() }], false, "correct header cut by one character"),
        7 => (vec![{ let h = basic(USER, PASS); h[..("Authorization: Basic ".len() + 6)].to_string() }], false, "correct header cut after 6 characters"),
        8 => (vec!["Authorization: Basic".to_string()], false, "scheme only"),
        9 => (vec!["Authorization:".to_string()], false, "empty value"),
        10 => (vec![format!("{}x", basic(USER, PASS))], false, "correct header plus a trailing character"),
        11 => (vec![basic(USER, &PASS[..PASS.len() - 1])], false, "password cut by one character"),
        _ => (vec![basic(USER, PASS)], true, "correct"),
    }
}

struct Fx {
    port: u16,
    ctx: ReqCtx,
    auth: Vec<String>,
}

impl Fx {
    fn call(&self, method: &str, params: Value, headers: &[String]) -> Value {
        let body = json!({"jsonrpc": "2.0", "id": 7, "method": method, "params": params}).to_string();
        let t = std::time::Instant::now();
        let r = post(self.port, &body, headers).map(|r| r.json()).unwrap_or(Value::Null);
        if t.elapsed().as_millis() > 500 && std::env::var("VERIF_VERBOSE").is_ok() {
            eprintln!("SLOW {:?} {} {} -> {}", t.elapsed(), method, params, crate::observe::short(&r));
        }
        r
    }
    fn admin(&self, method: &str, params: Value) -> Value {
        let r = self.call(method, params, &self.auth);
        if std::env::var("VERIF_VERBOSE").is_ok() {
            eprintln!("ADMIN {} -> {}", method, crate::observe::short(&r).chars().take(160).collect::<String>());
        }
        r
    }
    fn setup(port: u16, auth: Vec<String>) -> Fx {
        let h1 = b256_hex(keccak256(b"c12-b1"));
        let mut fx = Fx {
            port,
            auth,
            ctx: ReqCtx { contract: String::new(), contract_insc: "c12contracti0".into(), tx_hash: String::new(), block_hash: h1.clone(), pkscript: PKSCRIPTS[0].into(), height: 0, open_hash: String::new(), open_ts: 0, open_count: 0, seq: 0, signer_nonce: 0 },
        };
        fx.admin("brc20_initialise", json!({"genesis_hash": b256_hex(keccak256(b"rpcgen-genesis")), "genesis_timestamp": 1, "genesis_height": 0}));
        let r = fx.admin("brc20_deploy", json!({"from_pkscript": PKSCRIPTS[0], "data": RUNTIME_STORE, "timestamp": 2, "hash": h1, "tx_idx": 0, "inscription_id": "c12contracti0", "inscription_byte_len": 2500, "op_return_tx_id": h1}));
        fx.ctx.contract = r["result"]["contractAddress"].as_str().unwrap_or("").to_string();
        fx.ctx.tx_hash = r["result"]["transactionHash"].as_str().unwrap_or("").to_string();
        fx.admin("brc20_deposit", json!({"to_pkscript": PKSCRIPTS[0], "ticker": "ordi", "amount": "0x64", "timestamp": 2, "hash": h1, "tx_idx": 1, "inscription_id": "c12depositi0"}));
        fx.admin("brc20_finaliseBlock", json!({"timestamp": 2, "hash": h1, "block_tx_count": 2}));
        fx.admin("brc20_mine", json!([2, 3]));
        fx.admin("brc20_commitToDatabase", json!([]));
        fx.refresh(false);
        fx
    }
    /// known state: boundary (everything uncommitted dropped) or one transaction into a block
    fn refresh(&mut self, mid: bool) {
        self.ctx.seq += 1;
        self.admin("brc20_clearCaches", json!([]));
        self.ctx.height = self.call("eth_blockNumber", json!([]), &[])["result"].as_str().and_then(|s| u64::from_str_radix(s.trim_start_matches("0x"), 16).ok()).unwrap_or(0);
        self.ctx.open_hash = b256_hex(keccak256(format!("c12-open{}", self.ctx.seq)));
        self.ctx.open_ts = 50 + self.ctx.seq;
        self.ctx.open_count = 0;
        if mid {
            let p = well_typed("brc20_call", &self.ctx);
            if self.admin("brc20_call", p)["result"].is_object() {
                self.ctx.open_count = 1;
            }
            self.ctx.seq += 1;
        }
    }
    /// everything a public client can see that any indexer call would change
    fn digest(&self) -> String {
        let mut s = String::new();
        let qs: Vec<(&str, Value)> = vec![
            ("eth_blockNumber", json!([])),
            ("txpool_content", json!([])),
            ("eth_getStorageAt", json!([self.ctx.contract, "0x0"])),
            ("eth_getTransactionCount", json!([addr_hex(pk_addr(0)), "latest"])),
            ("eth_getTransactionCount", json!([addr_hex(indexer_addr()), "latest"])),
            ("eth_getTransactionCount", json!([addr_hex(signer_addr(0)), "latest"])),
            ("eth_getCode", json!([self.ctx.contract])),
            ("eth_getBlockByNumber", json!(["latest", false])),
        ];
        for (m, p) in qs {
            s.push_str(&crate::observe::canon(&self.call(m, p, &[])["result"]).to_string());
            s.push('|');
        }
        s
    }
    /// did a commit happen? (not visible through queries: drop the caches and look at the height)
    fn durable_height(&mut self) -> u64 {
        self.admin("brc20_clearCaches", json!([]));
        self.call("eth_blockNumber", json!([]), &[])["result"].as_str().and_then(|s| u64::from_str_radix(s.trim_start_matches("0x"), 16).ok()).unwrap_or(0)
    }
}

fn is_401(v: &Value) -> bool {
    v["error"]["code"].as_i64() == Some(401)
}

fn run_server(auth_enabled: bool, ev: &mut Evidence) -> Result<(), Failure> {
    let dir = fresh_dir("c12");
    let port = free_port();
    let cfg = config("regtest", &dir, port, if auth_enabled { Some((USER, PASS)) } else { None }, true);
    let srv = Server::start(cfg).map_err(|e| Failure::new("harness/server-start", e))?;
    let res = (|| -> Result<(), Failure> {
        let mut fx = Fx::setup(port, vec![basic(USER, PASS)]);
        let listed: Vec<String> = brc20_prog::verif::INDEXER_METHODS.iter().cloned().collect();
        let inst_methods: Vec<&'static str> = {
            // the registered method table (from an in-process instance of the same build)
            let i = crate::driver::Instance::fresh("c12m");
            i.method_names()
        };
        ev.extra.insert("registered_methods".into(), json!(inst_methods.len()));
        let mut behaviourally_mutating: Vec<String> = vec![];
        for m in &inst_methods {
            for mid in [false, true] {
                // executing reads wait 5 s for an open block by design; the mid-block state only matters for
                // calls that the middleware may have to refuse
                if mid && (crate::rpcgen::executing_read(m) || !(listed.contains(&m.to_string()) || behaviourally_mutating.contains(&m.to_string()))) {
                    continue;
                }
                // ---- with credentials (or auth disabled): admitted; learn whether it mutates
                fx.refresh(mid);
                let before = fx.digest();
                let p = well_typed(m, &fx.ctx);
                let r = fx.admin(m, p.clone());
                if is_401(&r) {
                    fail!("C12/refused-with-valid-credentials", "{} {} -> {}", m, p, r);
                }
                let mutated = fx.digest() != before;
                if mutated && !behaviourally_mutating.contains(&m.to_string()) {
                    behaviourally_mutating.push(m.to_string());
                }
                let protected = listed.contains(&m.to_string()) || mutated;
                // ---- every credential kind x every request form
                for ck in 0..13u8 {
                    let (headers, valid, cname) = creds(ck);
                    let admitted = valid || !auth_enabled;
                    // single call
                    fx.refresh(mid);
                    let p = well_typed(m, &fx.ctx);
                    let d0 = fx.digest();
                    let r = fx.call(m, p.clone(), &headers);
                    ev.evaluations += 1;
                    if protected && !admitted {
                        if !is_401(&r) {
                            fail!(format!("C12/indexer-method-admitted-without-credentials:{}", m), "call with {}: {} {} -> {}", cname, m, p, r);
                        }
                        if fx.digest() != d0 {
                            fail!(format!("C12/state-changed-without-credentials:{}", m), "call with {}", cname);
                        }
                        ev.count_class("refused-call", 1);
                    } else if is_401(&r) {
                        fail!(format!("C12/permitted-request-refused:{}", m), "call with {} (auth enabled: {}) -> {}", cname, auth_enabled, r);
                    }
                    // notification
                    fx.refresh(mid);
                    let p = well_typed(m, &fx.ctx);
                    let d0 = fx.digest();
                    let body = json!({"jsonrpc": "2.0", "method": m, "params": p}).to_string();
                    let resp = post(port, &body, &headers).map_err(|e| Failure::new("harness/http", e))?;
                    ev.evaluations += 1;
                    if protected && !admitted {
                        if fx.digest() != d0 {
                            fail!(format!("C12/state-changed-without-credentials:{}", m), "notification with {}", cname);
                        }
                        if resp.json().get("result").is_some() {
                            fail!(format!("C12/indexer-method-admitted-without-credentials:{}", m), "notification with {} got a result: {}", cname, resp.body);
                        }
                        ev.count_class("refused-notification", 1);
                    }
                    // batches: the method at every position of a batch of 2..4 mixed with permitted calls
                    for size in 2..=4usize {
                        for pos in 0..size {
                            if (pos + size + ck as usize) % 2 == 1 && size == 4 {
                                continue; // thin out the largest shape
                            }
                            fx.refresh(mid);
                            let p = well_typed(m, &fx.ctx);
                            let d0 = fx.digest();
                            let mut batch = vec![];
                            for i in 0..size {
                                if i == pos {
                                    batch.push(json!({"jsonrpc": "2.0", "id": 100 + i, "method": m, "params": p}));
                                } else if i % 2 == 0 {
                                    batch.push(json!({"jsonrpc": "2.0", "id": 100 + i, "method": "eth_chainId", "params": []}));
                                } else {
                                    batch.push(json!({"jsonrpc": "2.0", "id": 100 + i, "method": "eth_getStorageAt", "params": [fx.ctx.contract, "0x0"]}));
                                }
                            }
                            let resp = post(port, &Value::Array(batch).to_string(), &headers).map_err(|e| Failure::new("harness/http", e))?;
                            let arr = resp.json().as_array().cloned().unwrap_or_default();
                            ev.evaluations += 1;
                            let entry = |id: usize| arr.iter().find(|e| e["id"].as_u64() == Some(id as u64)).cloned().unwrap_or(Value::Null);
                            let mine = entry(100 + pos);
                            if protected && !admitted {
                                if !is_401(&mine) {
                                    fail!(format!("C12/indexer-method-admitted-without-credentials:{}", m), "batch of {} position {} with {}: entry -> {}", size, pos, cname, mine);
                                }
                                if fx.digest() != d0 {
                                    fail!(format!("C12/state-changed-without-credentials:{}", m), "batch of {} position {} with {}", size, pos, cname);
                                }
                                ev.nontrivial.insert(alloy::primitives::keccak256(format!("{}{}{}{}{}{}", m, mid, ck, size, pos, auth_enabled)).0[0] as u64 * 65536 + (ev.evaluations & 0xffff));
                                ev.count_class("refused-batch-entry-among-permitted-calls", 1);
                            } else if is_401(&mine) {
                                fail!(format!("C12/permitted-request-refused:{}", m), "batch entry with {} -> {}", cname, mine);
                            }
                            for i in 0..size {
                                if i != pos {
                                    let e = entry(100 + i);
                                    let want = if i % 2 == 0 { json!(format!("0x{:x}", crate::driver::chain_id())) } else { Value::Null };
                                    if e.get("result").is_none() || (i % 2 == 0 && e["result"] != want) {
                                        fail!("C12/permitted-batch-entry-not-answered", "batch of {} (protected {} at {}) with {}: entry {} -> {}", size, m, pos, cname, i, e);
                                    }
                                }
                            }
                        }
                    }
                }
            }
        }
        // commit is not visible through queries: unauthorized commit must not make uncommitted blocks durable
        if auth_enabled {
            for ck in 0..12u8 {
                let (headers, _, cname) = creds(ck);
                fx.refresh(false);
                let h0 = fx.ctx.height;
                fx.admin("brc20_mine", json!([1, 9]));
                for form in 0..3 {
                    match form {
                        0 => {
                            fx.call("brc20_commitToDatabase", json!([]), &headers);
                        }
                        1 => {
                            let _ = post(port, &json!({"jsonrpc": "2.0", "method": "brc20_commitToDatabase", "params": []}).to_string(), &headers);
                        }
                        _ => {
                            let _ = post(port, &json!([{"jsonrpc": "2.0", "id": 1, "method": "eth_chainId", "params": []}, {"jsonrpc": "2.0", "method": "brc20_commitToDatabase", "params": []}, {"jsonrpc": "2.0", "id": 2, "method": "brc20_commitToDatabase", "params": []}]).to_string(), &headers);
                        }
                    }
                    ev.evaluations += 1;
                }
                if fx.durable_height() != h0 {
                    fail!("C12/state-changed-without-credentials:brc20_commitToDatabase", "an unauthorised commit ({}) made a block durable", cname);
                }
            }
        }
        for m in &behaviourally_mutating {
            if !listed.contains(m) {
                // it was refused above (protected = listed || mutated) or the check failed; record it
                ev.count_class("mutating-method-not-on-the-declared-list", 1);
            }
        }
        ev.extra.insert(format!("behaviourally_mutating_auth_{}", auth_enabled), json!(behaviourally_mutating));
        Ok(())
    })();
    srv.stop();
    let _ = std::fs::remove_dir_all(&dir);
    res
}

impl Property for C12 {
    fn id(&self) -> &'static str {
        "C12"
    }
    fn run(&self, _ctx: &Ctx, ev: &mut Evidence) -> Vec<Found> {
        if is_worker() {
            return vec![];
        }
        ev.assumptions.push("the protected set is (declared INDEXER_METHODS) union (methods that change the public state digest when called with credentials and well-typed parameters); a real server is started through the public start() on a loopback port and driven with hand-written HTTP/1.1".into());
        ev.rules.push("[matrix] exhaustive: every registered method x {boundary, mid-block} x {call, notification, element at every position of batches of 2-4 mixed with permitted calls} x 13 credential kinds (none, wrong user, wrong password, malformed, non-Basic, near-misses: trailing space in the password, the correct header cut by one / cut short, scheme only, empty value, one trailing character, password cut by one; and correct) x {auth enabled, disabled}; non-trivial = a protected method refused as a batch element among permitted calls that were answered".into());
        ev.exhaustive = Some(true);
        let mut found = vec![];
        for auth in [true, false] {
            if let Err(f) = run_server(auth, ev) {
                found.push(Found { part: "matrix".into(), sig: f.sig, detail: f.detail, case: json!({"auth_enabled": auth}) });
                break;
            }
        }
        ev.samples.push(json!({"part": "matrix", "case": {"method": "brc20_transact", "form": "batch of 3, position 1", "credentials": "wrong password", "expected": "401 for the entry, eth_chainId / eth_getStorageAt entries answered, digest unchanged"}}));
        found
    }
    fn replay(&self, _part: &str, case: &Value) -> CheckResult {
        let ctx = Ctx { id: "C12".into(), tier: Tier::Quick, seed: 0, threads: 1 };
        let mut ev = Evidence::new(&ctx, "exploration");
        run_server(case["auth_enabled"].as_bool().unwrap_or(true), &mut ev)?;
        Ok(CaseInfo::default())
    }
}
