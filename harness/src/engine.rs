//! Property engine: parallel proptest runners with a fixed seed, shrinking with signature pinning,
//! replay files, known findings, evidence files.

use std::collections::{BTreeMap, HashSet};
use std::hash::{Hash, Hasher};
use std::path::{Path, PathBuf};
use std::time::Instant;

use proptest::strategy::{BoxedStrategy, Strategy};
use proptest::test_runner::{Config, RngAlgorithm, TestCaseError, TestError, TestRng, TestRunner};
use serde::de::DeserializeOwned;
use serde::Serialize;
use serde_json::{json, Value};

#[derive(Clone, Copy, Debug, PartialEq, Eq)]
pub enum Tier {
    Quick,
    Thorough,
}

impl Tier {
    pub fn name(&self) -> &'static str {
        match self {
            Tier::Quick => "quick",
            Tier::Thorough => "thorough",
        }
    }
    pub fn pick<T>(&self, quick: T, thorough: T) -> T {
        match self {
            Tier::Quick => quick,
            Tier::Thorough => thorough,
        }
    }
}

#[derive(Clone, Debug)]
pub struct Ctx {
    pub id: String,
    pub tier: Tier,
    pub seed: u64,
    pub threads: usize,
}

pub fn verif_root() -> PathBuf {
    if let Ok(r) = std::env::var("VERIF_ROOT") {
        return PathBuf::from(r);
    }
    // the binary lives in <root>/target/debug/check
    let exe = std::env::current_exe().unwrap_or_default();
    if let Some(root) = exe.parent().and_then(|p| p.parent()).and_then(|p| p.parent()) {
        if root.join("MANIFEST.json").exists() || root.join("harness").exists() {
            return root.to_path_buf();
        }
    }
    PathBuf::from("/verif")
}

#[derive(Clone, Debug)]
pub struct Failure {
    /// exact signature: the classifier of the oracle that found it
    pub sig: String,
    pub detail: String,
}

impl Failure {
    pub fn new(sig: impl Into<String>, detail: impl Into<String>) -> Failure {
        Failure { sig: sig.into(), detail: detail.into() }
    }
}

#[macro_export]
macro_rules! fail {
    ($sig:expr, $($arg:tt)*) => {
        return Err($crate::engine::Failure::new($sig, format!($($arg)*)))
    };
}

#[derive(Clone, Debug, Default)]
pub struct CaseInfo {
    pub nontrivial: bool,
    pub classes: Vec<String>,
    /// number of sub-evaluations this case stands for (e.g. crash points); default 1
    pub weight: u64,
}

impl CaseInfo {
    pub fn class(&mut self, c: &str) {
        self.classes.push(c.to_string());
    }
    pub fn class_if(&mut self, cond: bool, c: &str) {
        if cond {
            self.classes.push(c.to_string());
        }
    }
}

pub type CheckResult = Result<CaseInfo, Failure>;

/// Extra, domain-aware simplification applied after proptest's own shrinking
/// (greedy: accept a candidate if it still fails with the same signature).
pub trait Simplify: Sized {
    fn simpler(&self) -> Vec<Self> {
        vec![]
    }
}

/// candidates for a list-shaped case: drop the tail halves first, then single elements from the end
pub fn simpler_vec<T: Clone>(v: &[T], min_len: usize) -> Vec<Vec<T>> {
    let mut out = vec![];
    let n = v.len();
    let mut cut = n / 2;
    while cut >= 1 && n - cut >= min_len {
        out.push(v[..n - cut].to_vec());
        cut /= 2;
    }
    for i in (min_len.min(n)..n).rev() {
        let mut w = v.to_vec();
        w.remove(i);
        out.push(w);
    }
    out
}

#[derive(Clone, Debug)]
pub struct Found {
    pub part: String,
    pub sig: String,
    pub detail: String,
    pub case: Value,
}

#[derive(Clone, Debug)]
pub struct KnownFinding {
    pub property: String,
    pub sig: String,
    pub replay: String,
    pub what: String,
}

pub fn load_known_findings(id: &str) -> Vec<KnownFinding> {
    let p = verif_root().join("KNOWN_FINDINGS.txt");
    let Ok(s) = std::fs::read_to_string(p) else { return vec![] };
    let mut out = vec![];
    for line in s.lines() {
        let line = line.trim();
        let Some(rest) = line.strip_prefix("known:") else { continue };
        let mut property = String::new();
        let mut sig = String::new();
        let mut replay = String::new();
        let mut what = vec![];
        for tok in rest.split_whitespace() {
            if let Some(v) = tok.strip_prefix("property=") {
                property = v.into();
            } else if let Some(v) = tok.strip_prefix("signature=") {
                sig = v.into();
            } else if let Some(v) = tok.strip_prefix("replay=") {
                replay = v.into();
            } else {
                what.push(tok);
            }
        }
        if property == id {
            out.push(KnownFinding { property, sig, replay, what: what.join(" ") });
        }
    }
    out
}

pub struct Evidence {
    pub id: String,
    pub tier: Tier,
    pub seed: u64,
    pub level: String,
    pub evaluations: u64,
    pub nontrivial: HashSet<u64>,
    pub rules: Vec<String>,
    pub samples: Vec<Value>,
    pub classes: BTreeMap<String, u64>,
    pub extra: serde_json::Map<String, Value>,
    pub assumptions: Vec<String>,
    pub violations: u64,
    pub known_hits: BTreeMap<String, u64>,
    pub excluded_by_construction: BTreeMap<String, u64>,
    pub exhaustive: Option<bool>,
    start: Instant,
}

impl Evidence {
    pub fn new(ctx: &Ctx, level: &str) -> Evidence {
        Evidence {
            id: ctx.id.clone(),
            tier: ctx.tier,
            seed: ctx.seed,
            level: level.to_string(),
            evaluations: 0,
            nontrivial: HashSet::new(),
            rules: vec![],
            samples: vec![],
            classes: BTreeMap::new(),
            extra: serde_json::Map::new(),
            assumptions: vec![],
            violations: 0,
            known_hits: BTreeMap::new(),
            excluded_by_construction: BTreeMap::new(),
            exhaustive: None,
            start: Instant::now(),
        }
    }

    pub fn count_class(&mut self, c: &str, n: u64) {
        *self.classes.entry(c.to_string()).or_insert(0) += n;
    }

    pub fn path(&self) -> PathBuf {
        verif_root().join("evidence").join(format!("{}.json", self.id))
    }

    pub fn write(&self) {
        let mut coverage = serde_json::Map::new();
        coverage.insert("evaluations".into(), json!(self.evaluations));
        coverage.insert("distinct_nontrivial".into(), json!(self.nontrivial.len()));
        coverage.insert("rule".into(), json!(self.rules.join(" || ")));
        coverage.insert("samples".into(), json!(self.samples));
        coverage.insert("classes".into(), json!(self.classes));
        coverage.insert("known_findings_hit".into(), json!(self.known_hits));
        coverage.insert("excluded_by_construction".into(), json!(self.excluded_by_construction));
        if let Some(e) = self.exhaustive {
            coverage.insert("exhaustive".into(), json!(e));
        }
        for (k, v) in &self.extra {
            coverage.insert(k.clone(), v.clone());
        }
        let doc = json!({
            "property_id": self.id,
            "tier": self.tier.name(),
            "seed": self.seed,
            "level": self.level,
            "coverage": Value::Object(coverage),
            "assumptions": self.assumptions,
            "wall_s": (self.start.elapsed().as_secs_f64() * 100.0).round() / 100.0,
            "violations": self.violations,
        });
        let p = self.path();
        let _ = std::fs::create_dir_all(p.parent().unwrap());
        std::fs::write(&p, serde_json::to_string_pretty(&doc).unwrap()).expect("write evidence");
    }
}

fn hash_str(s: &str) -> u64 {
    let mut h = std::collections::hash_map::DefaultHasher::new();
    s.hash(&mut h);
    h.finish()
}

fn seed_bytes(seed: u64, id: &str, part: &str, thread: usize) -> [u8; 32] {
    let d = alloy::primitives::keccak256(format!("{}|{}|{}|{}", seed, id, part, thread));
    d.0
}

pub struct PartCfg {
    pub name: &'static str,
    pub rule: &'static str,
    pub cases: u64,
    pub max_shrink_iters: u32,
}

#[derive(Serialize, serde::Deserialize, Default)]
struct WorkerOut {
    evaluations: u64,
    nontrivial: Vec<u64>,
    classes: BTreeMap<String, u64>,
    samples: Vec<Value>,
    known_hits: BTreeMap<String, u64>,
    found: Vec<(String, String, String, Value)>,
    aborted: Option<String>,
}

/// VERIF_WORKER = "<part>|<k>|<n>|<outfile>|<stopfile>"
fn worker_env() -> Option<(String, usize, usize, PathBuf, PathBuf)> {
    let v = std::env::var("VERIF_WORKER").ok()?;
    let f: Vec<&str> = v.split('|').collect();
    if f.len() != 5 {
        return None;
    }
    Some((f[0].to_string(), f[1].parse().ok()?, f[2].parse().ok()?, PathBuf::from(f[3]), PathBuf::from(f[4])))
}

pub fn is_worker() -> bool {
    std::env::var("VERIF_WORKER").is_ok()
}

/// Run `cases` generated cases, spread over worker *processes* (one proptest runner each; threads of
/// one process contend on the address-space lock while opening 28 RocksDB stores per instance, processes
/// do not). Returns the shrunk failures, de-duplicated by signature.
pub fn explore<C, MS, F>(ctx: &Ctx, ev: &mut Evidence, cfg: &PartCfg, make_strategy: MS, check: F) -> Vec<Found>
where
    C: std::fmt::Debug + Clone + Serialize + DeserializeOwned + Simplify + 'static,
    MS: Fn() -> BoxedStrategy<C> + Sync,
    F: Fn(&C) -> CheckResult + Sync,
{
    explore_net(ctx, ev, cfg, None, make_strategy, check)
}

thread_local! {
    static CHILD_NETWORK: std::cell::RefCell<Option<String>> = const { std::cell::RefCell::new(None) };
}

/// like `explore`, with the worker processes configured for another network (CONFIG is process-global)
pub fn explore_net<C, MS, F>(ctx: &Ctx, ev: &mut Evidence, cfg: &PartCfg, network: Option<&str>, make_strategy: MS, check: F) -> Vec<Found>
where
    C: std::fmt::Debug + Clone + Serialize + DeserializeOwned + Simplify + 'static,
    MS: Fn() -> BoxedStrategy<C> + Sync,
    F: Fn(&C) -> CheckResult + Sync,
{
    CHILD_NETWORK.with(|c| *c.borrow_mut() = network.map(String::from));
    if let Some((part, k, n, outfile, stopfile)) = worker_env() {
        if part == cfg.name {
            let per = (cfg.cases + n as u64 - 1) / n as u64;
            let out = run_worker(ctx, cfg, per, k, &stopfile, &make_strategy, &check);
            std::fs::write(&outfile, serde_json::to_string(&out).unwrap()).expect("write worker result");
        }
        return vec![];
    }
    let out = spawn_and_merge(ctx, ev, cfg);
    ev.rules.push(format!("[{}] {}", cfg.name, cfg.rule));
    out
}

/// Exhaustive enumeration of `n_items` indexed cases spread over worker processes (index i goes to
/// worker i mod W). `check_idx` returns the CheckResult and a description of the case for replays.
pub fn explore_indexed<F>(ctx: &Ctx, ev: &mut Evidence, name: &'static str, rule: &str, n_items: u64, check_idx: F) -> Vec<Found>
where
    F: Fn(u64) -> (CheckResult, Value) + Sync,
{
    explore_indexed_net(ctx, ev, name, rule, n_items, None, check_idx)
}

/// `explore_indexed` with the worker processes configured for another network
pub fn explore_indexed_net<F>(ctx: &Ctx, ev: &mut Evidence, name: &'static str, rule: &str, n_items: u64, network: Option<&str>, check_idx: F) -> Vec<Found>
where
    F: Fn(u64) -> (CheckResult, Value) + Sync,
{
    CHILD_NETWORK.with(|c| *c.borrow_mut() = network.map(String::from));
    if let Some((part, k, n, outfile, stopfile)) = worker_env() {
        if part == name {
            let known: Vec<String> = load_known_findings(&ctx.id).into_iter().map(|k| k.sig).collect();
            let mut out = WorkerOut::default();
            let mut nontrivial = HashSet::new();
            let mut i = k as u64;
            while i < n_items {
                if stopfile.exists() {
                    break;
                }
                let (r, desc) = check_idx(i);
                match r {
                    Ok(info) => {
                        out.evaluations += info.weight.max(1);
                        if info.nontrivial {
                            nontrivial.insert(i);
                            if out.samples.is_empty() {
                                out.samples.push(desc);
                            }
                        }
                        for c in &info.classes {
                            *out.classes.entry(c.clone()).or_insert(0) += 1;
                        }
                    }
                    Err(f) => {
                        if known.contains(&f.sig) {
                            *out.known_hits.entry(f.sig).or_insert(0) += 1;
                        } else {
                            out.found.push((name.to_string(), f.sig, f.detail, json!({"index": i, "desc": desc})));
                            let _ = std::fs::write(&stopfile, b"stop");
                            break;
                        }
                    }
                }
                i += n as u64;
            }
            out.nontrivial = nontrivial.into_iter().collect();
            std::fs::write(&outfile, serde_json::to_string(&out).unwrap()).expect("write worker result");
        }
        return vec![];
    }
    let cfg = PartCfg { name, rule: "", cases: n_items, max_shrink_iters: 0 };
    let found = spawn_and_merge(ctx, ev, &cfg);
    ev.rules.push(format!("[{}] {}", name, rule));
    found
}

fn spawn_and_merge(ctx: &Ctx, ev: &mut Evidence, cfg: &PartCfg) -> Vec<Found> {
    let workers = ctx.threads.max(1).min(cfg.cases.max(1) as usize);
    let dir = crate::driver::scratch_root();
    let _ = std::fs::create_dir_all(&dir);
    let stopfile = dir.join(format!("stop-{}", cfg.name));
    let _ = std::fs::remove_file(&stopfile);
    let exe = std::env::current_exe().expect("current exe");
    let mut children = vec![];
    for k in 0..workers {
        let outfile = dir.join(format!("worker-{}-{}.json", cfg.name, k));
        let _ = std::fs::remove_file(&outfile);
        let child = std::process::Command::new(&exe)
            .arg(&ctx.id)
            .arg(ctx.tier.name())
            .env("VERIF_WORKER", format!("{}|{}|{}|{}|{}", cfg.name, k, workers, outfile.display(), stopfile.display()))
            .env("VERIF_SEED", ctx.seed.to_string())
            .envs(CHILD_NETWORK.with(|c| c.borrow().clone()).map(|n| ("VERIF_NETWORK".to_string(), n)))
            .stdout(std::process::Stdio::null())
            .spawn()
            .expect("spawn worker");
        children.push((child, outfile));
    }
    let mut merged: Vec<WorkerOut> = vec![];
    for (mut child, outfile) in children {
        let status = child.wait();
        match std::fs::read_to_string(&outfile).ok().and_then(|s| serde_json::from_str::<WorkerOut>(&s).ok()) {
            Some(o) => merged.push(o),
            None => {
                eprintln!("[{}] worker produced no result (status {:?})", cfg.name, status);
                ev.extra.insert("worker_failures".into(), json!(ev.extra.get("worker_failures").and_then(|v| v.as_u64()).unwrap_or(0) + 1));
            }
        }
        let _ = std::fs::remove_file(&outfile);
    }
    let _ = std::fs::remove_file(&stopfile);
    let mut out: Vec<Found> = vec![];
    for o in merged {
        ev.evaluations += o.evaluations;
        for h in o.nontrivial {
            ev.nontrivial.insert(h ^ hash_str(cfg.name));
        }
        for (k, v) in o.classes {
            ev.count_class(&format!("{}/{}", cfg.name, k), v);
        }
        for s in o.samples {
            if ev.samples.iter().filter(|x| x.get("part").and_then(|p| p.as_str()) == Some(cfg.name)).count() < 3 {
                ev.samples.push(json!({"part": cfg.name, "case": s}));
            }
        }
        for (k, v) in o.known_hits {
            *ev.known_hits.entry(k).or_insert(0) += v;
        }
        if let Some(a) = o.aborted {
            eprintln!("[{}] generator aborted: {}", cfg.name, a);
        }
        for (part, sig, detail, case) in o.found {
            if !out.iter().any(|f| f.sig == sig) {
                out.push(Found { part, sig, detail, case });
            }
        }
    }
    out
}

fn run_worker<C, MS, F>(ctx: &Ctx, cfg: &PartCfg, cases: u64, k: usize, stopfile: &Path, make_strategy: &MS, check: &F) -> WorkerOut
where
    C: std::fmt::Debug + Clone + Serialize + DeserializeOwned + Simplify + 'static,
    MS: Fn() -> BoxedStrategy<C> + Sync,
    F: Fn(&C) -> CheckResult + Sync,
{
    use std::cell::RefCell;
    let known: Vec<String> = load_known_findings(&ctx.id).into_iter().map(|k| k.sig).collect();
    let out = RefCell::new(WorkerOut::default());
    let nontrivial: RefCell<HashSet<u64>> = RefCell::new(HashSet::new());
    let first_sig: RefCell<Option<String>> = RefCell::new(None);
    let last_detail: RefCell<String> = RefCell::new(String::new());
    let config = Config {
        cases: cases as u32,
        failure_persistence: None,
        max_shrink_iters: cfg.max_shrink_iters,
        max_shrink_time: 90_000,
        max_global_rejects: 100_000,
        verbose: 0,
        ..Config::default()
    };
    let rng = TestRng::from_seed(RngAlgorithm::ChaCha, &seed_bytes(ctx.seed, &ctx.id, cfg.name, k));
    let mut runner = TestRunner::new_with_rng(config, rng);
    let strategy = make_strategy();
    let result = runner.run(&strategy, |case| {
        let shrinking = first_sig.borrow().is_some();
        if !shrinking && stopfile.exists() {
            return Ok(());
        }
        match check(&case) {
            Ok(info) => {
                if !shrinking {
                    let mut o = out.borrow_mut();
                    let n = o.evaluations;
                    o.evaluations += info.weight.max(1);
                    let js = serde_json::to_string(&case).unwrap_or_default();
                    if info.nontrivial {
                        nontrivial.borrow_mut().insert(hash_str(&js));
                    }
                    for c in &info.classes {
                        *o.classes.entry(c.clone()).or_insert(0) += 1;
                    }
                    if info.nontrivial && n % 5 == 0 && o.samples.is_empty() && js.len() < 20_000 {
                        o.samples.push(serde_json::from_str(&js).unwrap_or(Value::Null));
                    }
                }
                Ok(())
            }
            Err(f) => {
                if known.contains(&f.sig) {
                    if !shrinking {
                        *out.borrow_mut().known_hits.entry(f.sig.clone()).or_insert(0) += 1;
                    }
                    return Ok(());
                }
                let mut fs = first_sig.borrow_mut();
                match &*fs {
                    None => {
                        *fs = Some(f.sig.clone());
                        let _ = std::fs::write(stopfile, b"stop");
                    }
                    Some(s) if *s != f.sig => return Ok(()), // keep shrinking the same bug
                    _ => {}
                }
                *last_detail.borrow_mut() = f.detail.clone();
                Err(TestCaseError::fail(f.sig.clone()))
            }
        }
    });
    match result {
        Err(TestError::Fail(_reason, minimal)) => {
            let want = first_sig.borrow().clone().unwrap_or_default();
            let mut minimal = minimal;
            let t0 = Instant::now();
            'outer: loop {
                for cand in minimal.simpler() {
                    if t0.elapsed().as_secs() > 90 {
                        break 'outer;
                    }
                    if let Err(f) = check(&cand) {
                        if f.sig == want {
                            minimal = cand;
                            continue 'outer;
                        }
                    }
                }
                break;
            }
            let (sig, detail) = match check(&minimal) {
                Err(f) => (f.sig, f.detail),
                Ok(_) => (want, last_detail.borrow().clone()),
            };
            out.borrow_mut().found.push((cfg.name.to_string(), sig, detail, serde_json::to_value(&minimal).unwrap_or(Value::Null)));
        }
        Err(TestError::Abort(r)) => {
            out.borrow_mut().aborted = Some(r.to_string());
        }
        Ok(()) => {}
    }
    let mut o = out.into_inner();
    o.nontrivial = nontrivial.into_inner().into_iter().collect();
    o
}

pub fn replays_dir() -> PathBuf {
    verif_root().join("replays")
}

pub fn save_replay(id: &str, f: &Found) -> PathBuf {
    let doc = json!({"property": id, "part": f.part, "signature": f.sig, "detail": f.detail, "case": f.case});
    let s = serde_json::to_string_pretty(&doc).unwrap();
    let h = alloy::primitives::keccak256(serde_json::to_string(&f.case).unwrap());
    let dir = replays_dir().join("found");
    let _ = std::fs::create_dir_all(&dir);
    let p = dir.join(format!("{}-{}.json", id, &hex::encode(h)[..12]));
    std::fs::write(&p, s).expect("write replay");
    p
}

#[derive(Debug)]
pub struct ReplayFile {
    pub path: PathBuf,
    pub part: String,
    pub signature: String,
    pub case: Value,
}

pub fn load_replay(path: &Path) -> Result<ReplayFile, String> {
    let s = std::fs::read_to_string(path).map_err(|e| format!("{}: {}", path.display(), e))?;
    let v: Value = serde_json::from_str(&s).map_err(|e| format!("{}: {}", path.display(), e))?;
    Ok(ReplayFile {
        path: path.to_path_buf(),
        part: v.get("part").and_then(|p| p.as_str()).unwrap_or("").to_string(),
        signature: v.get("signature").and_then(|p| p.as_str()).unwrap_or("").to_string(),
        case: v.get("case").cloned().unwrap_or(Value::Null),
    })
}

/// committed regression replays for a property: /verif/replays/<id>-*.json
pub fn regression_files(id: &str) -> Vec<PathBuf> {
    let mut v = vec![];
    if let Ok(rd) = std::fs::read_dir(replays_dir()) {
        for e in rd.flatten() {
            let n = e.file_name().to_string_lossy().to_string();
            if n.starts_with(&format!("{}-", id)) && n.ends_with(".json") {
                v.push(e.path());
            }
        }
    }
    v.sort();
    v
}

pub fn decode_case<C: DeserializeOwned>(v: &Value) -> Result<C, Failure> {
    serde_json::from_value(v.clone()).map_err(|e| Failure::new("harness/replay-decode", e.to_string()))
}

/// map an index monotonically onto 0..len
pub fn pick_idx(i: u16, len: usize) -> usize {
    (i as usize * len) >> 16
}

/// helper for strategies over serialisable wrappers
pub fn boxed<S: Strategy + 'static>(s: S) -> BoxedStrategy<S::Value> {
    s.boxed()
}
