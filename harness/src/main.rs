mod driver;
mod engine;
mod evm;
mod http;
mod observe;
mod ops;
mod par;
mod props;
mod rpcgen;

use std::path::PathBuf;
use std::sync::OnceLock;

use engine::*;

static KNOWN_SIGS: OnceLock<Vec<String>> = OnceLock::new();

pub fn known_sigs() -> &'static Vec<String> {
    KNOWN_SIGS.get_or_init(Vec::new)
}

fn usage() -> ! {
    eprintln!("usage: check <property-id> quick|thorough\n       check <property-id> --replay <file>\n       check list");
    std::process::exit(2)
}

fn main() {
    let args: Vec<String> = std::env::args().collect();
    if args.len() < 2 {
        usage();
    }
    driver::install_panic_hook();
    driver::cleanup_stale_scratch();
    if args[1] == "list" {
        for p in props::all() {
            println!("{}", p.id());
        }
        return;
    }
    if args[1] == "bless" {
        for network in ["regtest", "signet", "mainnet"] {
            // one child per network: the configuration is process-global
            if std::env::var("VERIF_BLESS_CHILD").is_ok() {
                let network = std::env::var("VERIF_NETWORK").unwrap_or_else(|_| "regtest".to_string());
                driver::configure(&network);
                props::c02::bless(&network);
                break;
            }
            let _ = std::process::Command::new(std::env::current_exe().unwrap()).arg("bless").env("VERIF_BLESS_CHILD", "1").env("VERIF_NETWORK", network).status();
        }
        driver::cleanup_scratch();
        return;
    }
    if args[1] == "debug-golden" {
        driver::configure("regtest");
        props::c02::debug_golden();
        return;
    }
    if args[1] == "child-crash" {
        driver::configure("regtest");
        props::c04::child_main(&args[2..]);
        return;
    }
    if args[1] == "child-start" {
        props::c20::child_main(&args[2..]);
        return;
    }
    if args[1] == "httpbench" {
        driver::configure("regtest");
        let dir = driver::fresh_dir("hb");
        let port = http::free_port();
        let srv = http::Server::start(http::config("regtest", &dir, port, Some(("u", "p")), true)).expect("start");
        for (m, p) in [("eth_blockNumber", "[]"), ("brc20_mine", "[1,1]"), ("eth_chainId", "[]"), ("brc20_initialise", "[\"0x1111111111111111111111111111111111111111111111111111111111111111\",1,0]"), ("eth_call", "[{\"to\":\"0x0000000000000000000000000000000000000001\",\"data\":\"0x00\"}]")] {
            let t = std::time::Instant::now();
            let r = http::post(port, &format!("{{\"jsonrpc\":\"2.0\",\"id\":1,\"method\":\"{}\",\"params\":{}}}", m, p), &[http::basic("u", "p")]);
            println!("{} {:?} -> {:?}", m, t.elapsed(), r.map(|x| x.body.chars().take(100).collect::<String>()));
        }
        srv.stop();
        return;
    }
    if args[1] == "bench" {
        driver::configure("regtest");
        let threads: usize = args.get(2).and_then(|s| s.parse().ok()).unwrap_or(1);
        let t0 = std::time::Instant::now();
        std::thread::scope(|s| {
            for _ in 0..threads {
                s.spawn(|| {
                    for _ in 0..20 {
                        let t = std::time::Instant::now();
                        let mut i = driver::Instance::fresh("bench");
                        let o = t.elapsed();
                        let t = std::time::Instant::now();
                        i.call("brc20_initialise", serde_json::json!({"genesis_hash": format!("0x{}", "11".repeat(32)), "genesis_timestamp": 1, "genesis_height": 0}));
                        let ini = t.elapsed();
                        let t = std::time::Instant::now();
                        for _ in 0..10 { i.call("brc20_mine", serde_json::json!([1, 1])); }
                        let mine = t.elapsed();
                        let t = std::time::Instant::now();
                        i.call("brc20_commitToDatabase", serde_json::json!([]));
                        let com = t.elapsed();
                        let t = std::time::Instant::now();
                        drop(i);
                        let d = t.elapsed();
                        if threads == 1 { println!("open {:?} init {:?} mine10 {:?} commit {:?} drop {:?}", o, ini, mine, com, d); }
                    }
                });
            }
        });
        println!("threads {} total {:?}", threads, t0.elapsed());
        return;
    }
    if args.len() < 3 {
        usage();
    }
    let id = args[1].clone();
    let Some(prop) = props::get(&id) else {
        eprintln!("unknown property {}", id);
        std::process::exit(2)
    };
    let network = std::env::var("VERIF_NETWORK").unwrap_or_else(|_| prop.network().to_string());
    driver::configure(&network);
    let known = load_known_findings(&id);
    let _ = KNOWN_SIGS.set(known.iter().map(|k| k.sig.clone()).collect());
    let seed: u64 = std::env::var("VERIF_SEED").ok().and_then(|s| s.parse().ok()).unwrap_or(0);
    let threads: usize = std::env::var("VERIF_THREADS").ok().and_then(|s| s.parse().ok()).unwrap_or(16);

    if args[2] == "--replay" {
        let path = PathBuf::from(args.get(3).cloned().unwrap_or_else(|| usage()));
        let rf = match load_replay(&path) {
            Ok(r) => r,
            Err(e) => {
                eprintln!("{}", e);
                std::process::exit(2)
            }
        };
        if let Some(net) = prop.part_network(&rf.part) {
            if net != network {
                let st = std::process::Command::new(std::env::current_exe().unwrap()).args(&args[1..]).env("VERIF_NETWORK", net).status();
                std::process::exit(st.ok().and_then(|s| s.code()).unwrap_or(2));
            }
        }
        let code = match prop.replay(&rf.part, &rf.case) {
            Ok(_) => {
                println!("replay {}: property held", path.display());
                0
            }
            Err(f) => {
                println!("replay {}: {} :: {}", path.display(), f.sig, f.detail);
                if known.iter().any(|k| k.sig == f.sig) {
                    println!("KNOWN-FINDING: property={} {}", id, f.sig);
                    0
                } else {
                    println!("VIOLATION property={} replay={}", id, path.display());
                    1
                }
            }
        };
        driver::cleanup_scratch();
        std::process::exit(code);
    }

    let tier = match args[2].as_str() {
        "quick" => Tier::Quick,
        "thorough" => Tier::Thorough,
        _ => usage(),
    };
    let ctx = Ctx { id: id.clone(), tier, seed, threads };
    let mut ev = Evidence::new(&ctx, prop.level());
    if is_worker() {
        // worker process of explore(): run the part named in VERIF_WORKER, write its result file, exit
        prop.run(&ctx, &mut ev);
        driver::cleanup_scratch();
        return;
    }
    let mut violations: Vec<(String, PathBuf, String)> = vec![];
    let mut known_lines: Vec<String> = vec![];

    // regression tier: committed replays
    let mut reg = 0;
    for path in regression_files(&id) {
        let Ok(rf) = load_replay(&path) else { continue };
        reg += 1;
        let rel = path.strip_prefix(verif_root()).map(|p| p.to_path_buf()).unwrap_or(path.clone());
        let listed = known.iter().find(|k| k.replay.ends_with(&*rel.to_string_lossy()) || rel.to_string_lossy().ends_with(&k.replay));
        let result = match prop.part_network(&rf.part) {
            Some(net) if net != network => {
                // CONFIG is process-global: replay in a child configured for that network
                let out = std::process::Command::new(std::env::current_exe().unwrap()).arg(&id).arg("--replay").arg(&path).env("VERIF_NETWORK", net).output();
                match out {
                    Ok(o) if o.status.code() == Some(0) => Ok(CaseInfo::default()),
                    Ok(o) => {
                        let text = String::from_utf8_lossy(&o.stdout).to_string();
                        let line = text.lines().find(|l| l.starts_with("replay ")).unwrap_or("").to_string();
                        let sig = line.split(": ").nth(1).and_then(|x| x.split(" :: ").next()).unwrap_or("replay-failed").to_string();
                        Err(Failure::new(sig, line))
                    }
                    Err(e) => Err(Failure::new("harness/replay-spawn", e.to_string())),
                }
            }
            _ => prop.replay(&rf.part, &rf.case),
        };
        match result {
            Ok(_) => {}
            Err(f) => {
                if listed.map(|k| k.sig == f.sig).unwrap_or(false) || known.iter().any(|k| k.sig == f.sig) {
                    let k = known.iter().find(|k| k.sig == f.sig).unwrap();
                    let line = format!("KNOWN-FINDING: property={} {} {}", id, k.sig, k.what);
                    if !known_lines.contains(&line) {
                        known_lines.push(line);
                    }
                } else {
                    violations.push((f.sig.clone(), path.clone(), f.detail.clone()));
                }
            }
        }
    }
    ev.extra.insert("regression_replays".into(), serde_json::json!(reg));

    let found = prop.run(&ctx, &mut ev);
    let mut inconclusive: Vec<String> = vec![];
    for f in &found {
        if f.sig.starts_with("harness/") {
            // watchdog / harness problem: inconclusive, never a violation
            inconclusive.push(format!("{} :: {}", f.sig, f.detail));
            continue;
        }
        let p = save_replay(&id, f);
        violations.push((f.sig.clone(), p, f.detail.clone()));
    }
    for (sig, n) in ev.known_hits.clone() {
        if let Some(k) = known.iter().find(|k| k.sig == sig) {
            let line = format!("KNOWN-FINDING: property={} {} {}", id, k.sig, k.what);
            if !known_lines.contains(&line) {
                known_lines.push(line);
            }
            let _ = n;
        }
    }
    ev.violations = violations.len() as u64;
    ev.write();
    driver::cleanup_scratch();
    for l in &known_lines {
        println!("{}", l);
    }
    println!(
        "[{}] tier={} seed={} evaluations={} distinct_nontrivial={} violations={} wall={:.1}s",
        id,
        tier.name(),
        seed,
        ev.evaluations,
        ev.nontrivial.len(),
        violations.len(),
        ev_wall(&ev)
    );
    if !violations.is_empty() {
        for (sig, p, detail) in &violations {
            println!("  {} :: {}", sig, detail);
            println!("VIOLATION property={} replay={}", id, p.display());
        }
        std::process::exit(1);
    }
    if !inconclusive.is_empty() {
        for l in &inconclusive {
            println!("INCONCLUSIVE: {}", l);
        }
        std::process::exit(2);
    }
    if ev.nontrivial.len() < prop.nontrivial_floor(&ctx) {
        println!("INCONCLUSIVE: only {} distinct non-trivial cases (generator health)", ev.nontrivial.len());
        std::process::exit(2);
    }
}

fn ev_wall(ev: &Evidence) -> f64 {
    let s = std::fs::read_to_string(ev.path()).unwrap_or_default();
    serde_json::from_str::<serde_json::Value>(&s).ok().and_then(|v| v.get("wall_s").and_then(|w| w.as_f64())).unwrap_or(0.0)
}
