//! Tiny EVM assembler, an action AST for generated contracts, and proptest strategies for it.

use std::collections::HashMap;

use alloy::primitives::{keccak256, Address, B256, U256};
use proptest::prelude::*;
use serde::{Deserialize, Serialize};

pub mod op {
    pub const STOP: u8 = 0x00;
    pub const ADD: u8 = 0x01;
    pub const SUB: u8 = 0x03;
    pub const EQ: u8 = 0x14;
    pub const ISZERO: u8 = 0x15;
    pub const SHR: u8 = 0x1c;
    pub const ADDRESS: u8 = 0x30;
    pub const ORIGIN: u8 = 0x32;
    pub const CALLER: u8 = 0x33;
    pub const CALLDATALOAD: u8 = 0x35;
    pub const CALLDATASIZE: u8 = 0x36;
    pub const CALLDATACOPY: u8 = 0x37;
    pub const CODECOPY: u8 = 0x39;
    pub const GASPRICE: u8 = 0x3a;
    pub const RETURNDATASIZE: u8 = 0x3d;
    pub const RETURNDATACOPY: u8 = 0x3e;
    pub const BLOCKHASH: u8 = 0x40;
    pub const COINBASE: u8 = 0x41;
    pub const TIMESTAMP: u8 = 0x42;
    pub const NUMBER: u8 = 0x43;
    pub const PREVRANDAO: u8 = 0x44;
    pub const CHAINID: u8 = 0x46;
    pub const BASEFEE: u8 = 0x48;
    pub const POP: u8 = 0x50;
    pub const MLOAD: u8 = 0x51;
    pub const MSTORE: u8 = 0x52;
    pub const MSTORE8: u8 = 0x53;
    pub const SLOAD: u8 = 0x54;
    pub const SSTORE: u8 = 0x55;
    pub const JUMP: u8 = 0x56;
    pub const JUMPI: u8 = 0x57;
    pub const GAS: u8 = 0x5a;
    pub const JUMPDEST: u8 = 0x5b;
    pub const PUSH1: u8 = 0x60;
    pub const PUSH2: u8 = 0x61;
    pub const DUP1: u8 = 0x80;
    pub const DUP2: u8 = 0x81;
    pub const SWAP1: u8 = 0x90;
    pub const LOG0: u8 = 0xa0;
    pub const CREATE: u8 = 0xf0;
    pub const CALL: u8 = 0xf1;
    pub const RETURN: u8 = 0xf3;
    pub const DELEGATECALL: u8 = 0xf4;
    pub const CREATE2: u8 = 0xf5;
    pub const STATICCALL: u8 = 0xfa;
    pub const REVERT: u8 = 0xfd;
    pub const INVALID: u8 = 0xfe;
    pub const SELFDESTRUCT: u8 = 0xff;
}
use op::*;

#[derive(Default)]
pub struct Asm {
    pub code: Vec<u8>,
    labels: HashMap<usize, usize>,
    fixups: Vec<(usize, usize)>,
    next_label: usize,
}

impl Asm {
    pub fn new() -> Self {
        Self::default()
    }
    pub fn op(&mut self, b: u8) -> &mut Self {
        self.code.push(b);
        self
    }
    pub fn ops(&mut self, bs: &[u8]) -> &mut Self {
        self.code.extend_from_slice(bs);
        self
    }
    /// minimal-width PUSH (never PUSH0, so the code is valid before Shanghai too)
    pub fn push(&mut self, v: U256) -> &mut Self {
        let be: [u8; 32] = v.to_be_bytes();
        let skip = be.iter().take_while(|b| **b == 0).count().min(31);
        let bytes = &be[skip..];
        self.code.push(PUSH1 + (bytes.len() as u8 - 1));
        self.code.extend_from_slice(bytes);
        self
    }
    pub fn push_u(&mut self, v: u64) -> &mut Self {
        self.push(U256::from(v))
    }
    pub fn push_addr(&mut self, a: Address) -> &mut Self {
        self.code.push(PUSH1 + 19);
        self.code.extend_from_slice(a.as_slice());
        self
    }
    pub fn push_b32(&mut self, b: B256) -> &mut Self {
        self.code.push(PUSH1 + 31);
        self.code.extend_from_slice(b.as_slice());
        self
    }
    pub fn new_label(&mut self) -> usize {
        self.next_label += 1;
        self.next_label
    }
    pub fn push_label(&mut self, l: usize) -> &mut Self {
        self.code.push(PUSH2);
        self.fixups.push((self.code.len(), l));
        self.code.extend_from_slice(&[0, 0]);
        self
    }
    pub fn label(&mut self, l: usize) -> &mut Self {
        self.labels.insert(l, self.code.len());
        self.code.push(JUMPDEST);
        self
    }
    /// mark a position without emitting a JUMPDEST (for data offsets)
    pub fn mark(&mut self, l: usize) -> &mut Self {
        self.labels.insert(l, self.code.len());
        self
    }
    /// write `data` to memory at `off` with PUSH32/MSTORE chunks
    pub fn mem_write(&mut self, off: u64, data: &[u8]) -> &mut Self {
        for (i, chunk) in data.chunks(32).enumerate() {
            let mut w = [0u8; 32];
            w[..chunk.len()].copy_from_slice(chunk);
            self.push_b32(B256::from(w));
            self.push_u(off + 32 * i as u64);
            self.op(MSTORE);
        }
        self
    }
    pub fn finish(mut self) -> Vec<u8> {
        for (pos, l) in &self.fixups {
            let t = *self.labels.get(l).expect("label defined");
            self.code[*pos] = (t >> 8) as u8;
            self.code[*pos + 1] = (t & 0xff) as u8;
        }
        self.code
    }
}

// ---------------------------------------------------------------------------------------------
// Action AST

pub const N_SLOTS: u8 = 8;
pub const CTX_BASE: u64 = 0x100;

pub fn const_val(i: u8) -> U256 {
    match i % 6 {
        0 => U256::ZERO,
        1 => U256::from(1u64),
        2 => U256::from(2u64),
        3 => U256::from(0xabcdefu64),
        4 => U256::MAX,
        _ => U256::from(1u64) << 255,
    }
}

pub fn topic(i: u8) -> B256 {
    keccak256([b't', i % 6])
}

pub fn eoa(i: u8) -> Address {
    Address::from_slice(&keccak256([b'e', i % 4])[12..])
}

#[derive(Clone, Debug, Serialize, Deserialize, PartialEq, Eq, Hash)]
pub enum Val {
    Const(u8),
    Arg,
    Incr,
}

#[derive(Clone, Debug, Serialize, Deserialize, PartialEq, Eq, Hash)]
pub enum Target {
    /// index into the contracts known when the code is built (mapped monotonically)
    Known(u16),
    Precompile(u8),
    Eoa(u8),
    SelfAddr,
    Controller,
}

#[derive(Clone, Debug, Serialize, Deserialize, PartialEq, Eq, Hash)]
pub enum Act {
    SStore { slot: u8, val: Val },
    Log { topics: Vec<u8>, data_len: u8 },
    /// kind: 0 CALL, 1 STATICCALL, 2 DELEGATECALL
    Call { kind: u8, target: Target, sel: u8, arg: u8, store: Option<u8> },
    Create { salt: Option<u8>, child: Box<Prog>, store: Option<u8> },
    SelfDestruct { to: u8 },
    Revert { len: u8 },
    Return { len: u8 },
    ReturnSlot { slot: u8 },
    Invalid,
    Stop,
    Burn { iters: u16 },
    Context,
    /// return NUMBER and BLOCKHASH(NUMBER-1) (block context that simulations must share with the next transaction)
    ReturnBlockInfo,
}

#[derive(Clone, Debug, Serialize, Deserialize, PartialEq, Eq, Hash)]
pub struct Prog {
    pub ctor: Vec<Act>,
    pub blocks: Vec<Vec<Act>>,
}

/// What `Target::Known` and friends resolve to when code is built.
pub struct Env<'a> {
    pub contracts: &'a [Address],
    pub controller: Address,
}

pub fn pick<T: Copy>(items: &[T], idx: u16) -> Option<T> {
    if items.is_empty() {
        None
    } else {
        Some(items[(idx as usize * items.len()) >> 16])
    }
}

fn resolve(t: &Target, env: &Env) -> Option<Address> {
    match t {
        Target::Known(i) => Some(pick(env.contracts, *i).unwrap_or_else(|| eoa(0))),
        Target::Precompile(p) => {
            let mut a = [0u8; 20];
            a[19] = *p;
            Some(Address::from(a))
        }
        Target::Eoa(i) => Some(eoa(*i)),
        Target::SelfAddr => None,
        Target::Controller => Some(env.controller),
    }
}

/// precompile addresses generated code may call: the Ethereum set, and the module's helpers that
/// do not talk to a Bitcoin node (0xfa txid, 0xfb lock script, 0xfe bip322). 0xfc/0xfd are never
/// targeted: without a node they retry for 5 s and then abort by design (environment fault).
pub const SAFE_PRECOMPILES: [u8; 13] = [1, 2, 3, 4, 5, 6, 7, 8, 9, 10, 0xfa, 0xfb, 0xfe];

fn emit_act(a: &mut Asm, act: &Act, env: &Env) {
    match act {
        Act::SStore { slot, val } => {
            match val {
                Val::Const(i) => {
                    a.push(const_val(*i));
                }
                Val::Arg => {
                    a.push_u(1).op(CALLDATALOAD);
                }
                Val::Incr => {
                    a.push_u(*slot as u64).op(SLOAD).push_u(1).op(ADD);
                }
            }
            a.push_u(*slot as u64).op(SSTORE);
        }
        Act::Log { topics, data_len } => {
            a.push_b32(keccak256(b"logdata")).push_u(0).op(MSTORE);
            a.push_b32(keccak256(b"logdata2")).push_u(32).op(MSTORE);
            let n = topics.len().min(4);
            for t in topics.iter().take(4).rev() {
                a.push_b32(topic(*t));
            }
            a.push_u((*data_len % 65) as u64).push_u(0).op(LOG0 + n as u8);
        }
        Act::Call { kind, target, sel, arg, store } => {
            // calldata = [sel] ++ word(arg) at memory 0..33
            a.push(const_val(*arg)).push_u(1).op(MSTORE);
            a.push_u(*sel as u64).push_u(0).op(MSTORE8);
            // out: 32 bytes at 0x40
            a.push_u(0).push_u(0x40).op(MSTORE);
            a.push_u(32).push_u(0x40).push_u(33).push_u(0);
            if *kind % 3 == 0 {
                a.push_u(0);
            }
            match resolve(target, env) {
                Some(addr) => {
                    a.push_addr(addr);
                }
                None => {
                    a.op(ADDRESS);
                }
            }
            a.push_u(0xffff_ffff);
            a.op(match *kind % 3 {
                0 => CALL,
                1 => STATICCALL,
                _ => DELEGATECALL,
            });
            match store {
                Some(s) => {
                    a.push_u(*s as u64).op(SSTORE);
                    a.push_u(0x40).op(MLOAD).push_u((*s as u64 + 1) % N_SLOTS as u64).op(SSTORE);
                }
                None => {
                    a.op(POP);
                }
            }
        }
        Act::Create { salt, child, store } => {
            let code = build_init(child, env);
            a.mem_write(0x80, &code);
            if let Some(s) = salt {
                a.push_u(*s as u64);
            }
            a.push_u(code.len() as u64).push_u(0x80).push_u(0);
            a.op(if salt.is_some() { CREATE2 } else { CREATE });
            match store {
                Some(s) => {
                    a.push_u(*s as u64).op(SSTORE);
                }
                None => {
                    a.op(POP);
                }
            }
        }
        Act::SelfDestruct { to } => {
            a.push_addr(eoa(*to)).op(SELFDESTRUCT);
        }
        Act::Revert { len } => {
            a.push_b32(keccak256(b"revertdata")).push_u(0).op(MSTORE);
            a.push_u((*len % 65) as u64).push_u(0).op(REVERT);
        }
        Act::Return { len } => {
            a.push_b32(keccak256(b"returndata")).push_u(0).op(MSTORE);
            a.push_u((*len % 65) as u64).push_u(0).op(RETURN);
        }
        Act::ReturnSlot { slot } => {
            a.push_u(*slot as u64).op(SLOAD).push_u(0).op(MSTORE);
            a.push_u(32).push_u(0).op(RETURN);
        }
        Act::Invalid => {
            a.op(INVALID);
        }
        Act::Stop => {
            a.op(STOP);
        }
        Act::Burn { iters } => {
            let l = a.new_label();
            a.push_u(*iters as u64 + 1);
            a.label(l);
            a.push_u(1).op(SWAP1).op(SUB).op(DUP1);
            a.push_label(l).op(JUMPI).op(POP);
        }
        Act::Context => emit_context(a),
        Act::ReturnBlockInfo => {
            a.op(NUMBER).push_u(0).op(MSTORE);
            a.push_u(1).op(NUMBER).op(SUB).op(BLOCKHASH).push_u(32).op(MSTORE);
            a.push_u(64).push_u(0).op(RETURN);
        }
    }
}

/// Store every context opcode into slots CTX_BASE.. (see `ctx_slot`), query BLOCKHASH for
/// number-k (k in BH_KS) and ask the txid helper at 0xfa.
pub const BH_KS: [u64; 6] = [0, 1, 2, 255, 256, 257];
pub mod ctx_slot {
    pub const NUMBER: u64 = 0;
    pub const TIMESTAMP: u64 = 1;
    pub const PREVRANDAO: u64 = 2;
    pub const CHAINID: u64 = 3;
    pub const BASEFEE: u64 = 4;
    pub const GASPRICE: u64 = 5;
    pub const COINBASE: u64 = 6;
    pub const ORIGIN: u64 = 7;
    pub const CALLER: u64 = 8;
    pub const TXID_OK: u64 = 9; // 1 + success flag of the staticcall (so 0 = never ran)
    pub const TXID_RETSIZE: u64 = 10; // 1 + returndatasize
    pub const TXID_WORD: u64 = 11;
    pub const BLOCKHASH0: u64 = 12; // + index into BH_KS
    pub const COUNT: u64 = 18;
}

fn emit_context(a: &mut Asm) {
    let simple = [
        (NUMBER, ctx_slot::NUMBER),
        (TIMESTAMP, ctx_slot::TIMESTAMP),
        (PREVRANDAO, ctx_slot::PREVRANDAO),
        (CHAINID, ctx_slot::CHAINID),
        (BASEFEE, ctx_slot::BASEFEE),
        (GASPRICE, ctx_slot::GASPRICE),
        (COINBASE, ctx_slot::COINBASE),
        (ORIGIN, ctx_slot::ORIGIN),
        (CALLER, ctx_slot::CALLER),
    ];
    for (o, s) in simple {
        a.op(o).push_u(CTX_BASE + s).op(SSTORE);
    }
    for (i, k) in BH_KS.iter().enumerate() {
        // BLOCKHASH(NUMBER - k); for k > NUMBER the subtraction wraps to a huge number -> 0
        a.push_u(*k).op(NUMBER).op(SUB).op(BLOCKHASH);
        a.push_u(CTX_BASE + ctx_slot::BLOCKHASH0 + i as u64).op(SSTORE);
    }
    // txid helper: staticcall(gas, 0xfa, 0, 4, 0x40, 32) with selector getTxId()
    let sel = &keccak256(b"getTxId()")[..4];
    let mut w = [0u8; 32];
    w[..4].copy_from_slice(sel);
    a.push_b32(B256::from(w)).push_u(0).op(MSTORE);
    a.push_u(0).push_u(0x40).op(MSTORE);
    a.push_u(32).push_u(0x40).push_u(4).push_u(0).push_u(0xfa).push_u(100_000).op(STATICCALL);
    a.push_u(1).op(ADD).push_u(CTX_BASE + ctx_slot::TXID_OK).op(SSTORE);
    a.op(RETURNDATASIZE).push_u(1).op(ADD).push_u(CTX_BASE + ctx_slot::TXID_RETSIZE).op(SSTORE);
    a.push_u(0x40).op(MLOAD).push_u(CTX_BASE + ctx_slot::TXID_WORD).op(SSTORE);
}

pub fn build_runtime(p: &Prog, env: &Env) -> Vec<u8> {
    let mut a = Asm::new();
    let labels: Vec<usize> = p.blocks.iter().map(|_| a.new_label()).collect();
    a.push_u(0).op(CALLDATALOAD).push_u(248).op(SHR);
    for (i, l) in labels.iter().enumerate() {
        a.op(DUP1).push_u(i as u64).op(EQ).push_label(*l).op(JUMPI);
    }
    a.op(STOP);
    for (i, l) in labels.iter().enumerate() {
        a.label(*l).op(POP);
        for act in &p.blocks[i] {
            emit_act(&mut a, act, env);
        }
        a.op(STOP);
    }
    a.finish()
}

/// init code: run the constructor actions, then copy the runtime (appended behind) and return it
pub fn build_init(p: &Prog, env: &Env) -> Vec<u8> {
    let runtime = build_runtime(p, env);
    let mut a = Asm::new();
    for act in &p.ctor {
        emit_act(&mut a, act, env);
    }
    let data = a.new_label();
    a.push_u(runtime.len() as u64).push_label(data).push_u(0).op(CODECOPY);
    a.push_u(runtime.len() as u64).push_u(0).op(RETURN);
    a.mark(data);
    let mut code = a.finish();
    code.extend_from_slice(&runtime);
    code
}

/// calldata for a generated contract: selector byte + one 32-byte argument word
pub fn calldata(sel: u8, arg: U256) -> Vec<u8> {
    let mut d = vec![sel];
    d.extend_from_slice(&arg.to_be_bytes::<32>());
    d
}

// ---------------------------------------------------------------------------------------------
// Strategies

#[derive(Clone, Copy, Debug)]
pub struct ProgCfg {
    /// allow Context (TIMESTAMP, PREVRANDAO, txid ...) actions
    pub context: bool,
    /// allow calls to 0xfa (txid helper)
    pub txid_precompile: bool,
    pub max_burn: u16,
    pub depth: u8,
}

impl ProgCfg {
    pub fn independent() -> Self {
        ProgCfg { context: false, txid_precompile: false, max_burn: 300, depth: 1 }
    }
    pub fn any() -> Self {
        ProgCfg { context: true, txid_precompile: true, max_burn: 300, depth: 1 }
    }
}

fn val_strategy() -> impl Strategy<Value = Val> {
    prop_oneof![3 => (0u8..6).prop_map(Val::Const), 1 => Just(Val::Arg), 2 => Just(Val::Incr)]
}

fn target_strategy(cfg: ProgCfg) -> impl Strategy<Value = Target> {
    let pcs: Vec<u8> = SAFE_PRECOMPILES.iter().copied().filter(|p| cfg.txid_precompile || *p != 0xfa).collect();
    prop_oneof![
        5 => any::<u16>().prop_map(Target::Known),
        2 => proptest::sample::select(pcs).prop_map(Target::Precompile),
        1 => (0u8..4).prop_map(Target::Eoa),
        1 => Just(Target::SelfAddr),
        1 => Just(Target::Controller),
    ]
}

fn leaf_act(cfg: ProgCfg) -> BoxedStrategy<Act> {
    let mut v: Vec<(u32, BoxedStrategy<Act>)> = vec![
        (8, (0u8..N_SLOTS, val_strategy()).prop_map(|(slot, val)| Act::SStore { slot, val }).boxed()),
        (5, (proptest::collection::vec(0u8..6, 0..=4), 0u8..65).prop_map(|(topics, data_len)| Act::Log { topics, data_len }).boxed()),
        (
            5,
            (0u8..3, target_strategy(cfg), 0u8..5, 0u8..6, proptest::option::of(0u8..N_SLOTS))
                .prop_map(|(kind, target, sel, arg, store)| Act::Call { kind, target, sel, arg, store })
                .boxed(),
        ),
        (1, (0u8..4).prop_map(|to| Act::SelfDestruct { to }).boxed()),
        (1, (0u8..65).prop_map(|len| Act::Revert { len }).boxed()),
        (1, (0u8..65).prop_map(|len| Act::Return { len }).boxed()),
        (2, (0u8..N_SLOTS).prop_map(|slot| Act::ReturnSlot { slot }).boxed()),
        (1, Just(Act::Invalid).boxed()),
        (1, Just(Act::Stop).boxed()),
        (1, (0u16..cfg.max_burn.max(1)).prop_map(|iters| Act::Burn { iters }).boxed()),
        (1, Just(Act::ReturnBlockInfo).boxed()),
    ];
    if cfg.context {
        v.push((2, Just(Act::Context).boxed()));
    }
    proptest::strategy::Union::new_weighted(v).boxed()
}

fn act_strategy(cfg: ProgCfg) -> BoxedStrategy<Act> {
    if cfg.depth == 0 {
        return leaf_act(cfg);
    }
    let child_cfg = ProgCfg { depth: cfg.depth - 1, ..cfg };
    prop_oneof![
        12 => leaf_act(cfg),
        2 => (proptest::option::of(0u8..3), prog_strategy_sized(child_cfg, 2, 2, 3), proptest::option::of(0u8..N_SLOTS))
            .prop_map(|(salt, child, store)| Act::Create { salt, child: Box::new(child), store }),
    ]
    .boxed()
}

pub fn prog_strategy_sized(cfg: ProgCfg, max_ctor: usize, max_blocks: usize, max_acts: usize) -> BoxedStrategy<Prog> {
    (
        proptest::collection::vec(act_strategy(cfg), 0..=max_ctor),
        proptest::collection::vec(proptest::collection::vec(act_strategy(cfg), 0..=max_acts), 1..=max_blocks),
    )
        .prop_map(|(ctor, blocks)| Prog { ctor, blocks })
        .boxed()
}

pub fn prog_strategy(cfg: ProgCfg) -> BoxedStrategy<Prog> {
    prog_strategy_sized(cfg, 3, 4, 5)
}

/// Does the program (anywhere) contain an action of this kind?
pub fn prog_any(p: &Prog, f: &dyn Fn(&Act) -> bool) -> bool {
    p.ctor.iter().chain(p.blocks.iter().flatten()).any(|a| {
        f(a) || matches!(a, Act::Create { child, .. } if prog_any(child, f))
    })
}

/// The probe contract of C19: selector 0 records the context, constructor records it too.
pub fn context_probe() -> Prog {
    Prog { ctor: vec![Act::Context], blocks: vec![vec![Act::Context], vec![Act::Stop]] }
}
