//! Observation function: every query method over the universe of everything a history mentioned.

use std::collections::BTreeSet;

use alloy::primitives::Address;
use serde_json::{json, Value};

use crate::driver::{Instance, Resp};
use crate::evm;
use crate::ops::addr_hex;

#[derive(Clone, Debug, Default)]
pub struct Universe {
    pub addrs: BTreeSet<String>,
    pub txs: BTreeSet<String>,
    pub inscs: BTreeSet<String>,
    pub block_hashes: BTreeSet<String>,
    pub max_height: u64,
    /// also observe the context-probe slots
    pub ctx_slots: bool,
    /// (pkscript, ticker) pairs for brc20_balance (an executing read: boundary only)
    pub balances: BTreeSet<(String, String)>,
}

impl Universe {
    pub fn add_addr(&mut self, a: Address) {
        self.addrs.insert(addr_hex(a));
    }
    pub fn merge(&mut self, o: &Universe) {
        self.addrs.extend(o.addrs.iter().cloned());
        self.txs.extend(o.txs.iter().cloned());
        self.inscs.extend(o.inscs.iter().cloned());
        self.block_hashes.extend(o.block_hashes.iter().cloned());
        self.max_height = self.max_height.max(o.max_height);
        self.ctx_slots |= o.ctx_slots;
        self.balances.extend(o.balances.iter().cloned());
    }
}

/// recursively sort object keys and zero the self-reported processing time
pub fn canon(v: &Value) -> Value {
    match v {
        Value::Object(m) => {
            let mut keys: Vec<&String> = m.keys().collect();
            keys.sort();
            let mut out = serde_json::Map::new();
            for k in keys {
                if k == "mineTimestamp" {
                    out.insert(k.clone(), json!("0x0"));
                } else {
                    out.insert(k.clone(), canon(&m[k]));
                }
            }
            Value::Object(out)
        }
        Value::Array(a) => Value::Array(a.iter().map(canon).collect()),
        o => o.clone(),
    }
}

pub fn canon_resp(r: &Resp) -> Value {
    canon(&r.to_json())
}

pub type Obs = Vec<(String, Value)>;

#[derive(Clone, Copy, Debug)]
pub struct ObsCfg {
    /// observe heights lo..=hi (None: 0..=max_height+2)
    pub heights: Option<(u64, u64)>,
    pub traces: bool,
    pub logs: bool,
}

impl Default for ObsCfg {
    fn default() -> Self {
        ObsCfg { heights: None, traces: true, logs: true }
    }
}

fn q(inst: &mut Instance, out: &mut Obs, method: &str, params: Value) {
    let r = inst.call(method, params.clone());
    out.push((format!("{} {}", method, params), canon_resp(&r)));
}

/// All non-executing queries (safe mid-block too).
pub fn observe_with(inst: &mut Instance, u: &Universe, cfg: ObsCfg) -> Obs {
    let mut out: Obs = Vec::new();
    q(inst, &mut out, "eth_blockNumber", json!([]));
    q(inst, &mut out, "txpool_content", json!([]));
    let (lo, hi) = cfg.heights.unwrap_or((0, u.max_height + 2));
    for h in lo..=hi {
        let hs = h.to_string();
        q(inst, &mut out, "eth_getBlockByNumber", json!([hs, false]));
        q(inst, &mut out, "eth_getBlockByNumber", json!([format!("0x{:x}", h), true]));
        q(inst, &mut out, "eth_getBlockTransactionCountByNumber", json!([hs]));
        q(inst, &mut out, "debug_getRawHeader", json!([hs]));
        q(inst, &mut out, "debug_getRawBlock", json!([hs]));
        q(inst, &mut out, "debug_getRawReceipts", json!([hs]));
        if cfg.traces {
            q(inst, &mut out, "debug_getBlockTraceString", json!([hs]));
            q(inst, &mut out, "debug_getBlockTraceHash", json!([hs]));
        }
        for i in 0..4u64 {
            q(inst, &mut out, "eth_getTransactionByBlockNumberAndIndex", json!([h, i]));
        }
    }
    if cfg.logs {
        let mut h = lo;
        while h <= hi {
            q(inst, &mut out, "eth_getLogs", json!([{"fromBlock": h.to_string(), "toBlock": (h + 5).to_string()}]));
            h += 3;
        }
        q(inst, &mut out, "eth_getLogs", json!([{}]));
    }
    for bh in &u.block_hashes {
        q(inst, &mut out, "eth_getBlockByHash", json!([bh, false]));
        q(inst, &mut out, "eth_getBlockByHash", json!([bh, true]));
        q(inst, &mut out, "eth_getBlockTransactionCountByHash", json!([bh]));
        q(inst, &mut out, "debug_getRawHeader", json!([bh]));
        for i in 0..2u64 {
            q(inst, &mut out, "eth_getTransactionByBlockHashAndIndex", json!([bh, i]));
        }
    }
    for tx in &u.txs {
        q(inst, &mut out, "eth_getTransactionByHash", json!([tx]));
        q(inst, &mut out, "eth_getTransactionReceipt", json!([tx]));
        q(inst, &mut out, "brc20_getInscriptionIdByTxHash", json!([tx]));
        if cfg.traces {
            q(inst, &mut out, "debug_traceTransaction", json!([tx]));
        }
    }
    for i in &u.inscs {
        q(inst, &mut out, "brc20_getTxReceiptByInscriptionId", json!([i]));
    }
    for a in &u.addrs {
        q(inst, &mut out, "eth_getTransactionCount", json!([a, "latest"]));
        q(inst, &mut out, "eth_getCode", json!([a]));
        q(inst, &mut out, "brc20_getInscriptionIdByContractAddress", json!([a]));
        q(inst, &mut out, "txpool_contentFrom", json!([a]));
        for s in 0..evm::N_SLOTS as u64 {
            q(inst, &mut out, "eth_getStorageAt", json!([a, format!("0x{:x}", s)]));
        }
        if u.ctx_slots {
            for s in 0..evm::ctx_slot::COUNT {
                q(inst, &mut out, "eth_getStorageAt", json!([a, format!("0x{:x}", evm::CTX_BASE + s)]));
            }
        }
    }
    out
}

pub fn observe(inst: &mut Instance, u: &Universe) -> Obs {
    observe_with(inst, u, ObsCfg::default())
}

/// Executing reads (only valid at a block boundary).
pub fn observe_balances(inst: &mut Instance, u: &Universe) -> Obs {
    let mut out = Vec::new();
    for (pk, t) in &u.balances {
        q(inst, &mut out, "brc20_balance", json!([pk, t]));
    }
    out
}

/// first difference between two observations over the same universe
pub fn diff(a: &Obs, b: &Obs) -> Option<String> {
    if a.len() != b.len() {
        return Some(format!("observation lengths differ: {} vs {}", a.len(), b.len()));
    }
    for ((qa, va), (qb, vb)) in a.iter().zip(b.iter()) {
        if qa != qb {
            return Some(format!("queries differ: {} vs {}", qa, qb));
        }
        if va != vb {
            return Some(format!("{}\n   A: {}\n   B: {}", qa, short(va), short(vb)));
        }
    }
    None
}

pub fn short(v: &Value) -> String {
    let s = v.to_string();
    if s.len() > 1500 {
        // show the region where they are likely to differ less usefully, but bounded
        format!("{}…[{} bytes]", &s[..1500], s.len())
    } else {
        s
    }
}

/// Field-level first difference between two JSON values (path, a, b).
pub fn json_diff(a: &Value, b: &Value, path: &str) -> Option<String> {
    match (a, b) {
        (Value::Object(x), Value::Object(y)) => {
            let keys: BTreeSet<&String> = x.keys().chain(y.keys()).collect();
            for k in keys {
                match (x.get(k), y.get(k)) {
                    (Some(p), Some(q)) => {
                        if let Some(d) = json_diff(p, q, &format!("{}.{}", path, k)) {
                            return Some(d);
                        }
                    }
                    (p, q) => return Some(format!("{}.{}: {:?} vs {:?}", path, k, p.map(short), q.map(short))),
                }
            }
            None
        }
        (Value::Array(x), Value::Array(y)) => {
            if x.len() != y.len() {
                return Some(format!("{}: array length {} vs {}", path, x.len(), y.len()));
            }
            for (i, (p, q)) in x.iter().zip(y.iter()).enumerate() {
                if let Some(d) = json_diff(p, q, &format!("{}[{}]", path, i)) {
                    return Some(d);
                }
            }
            None
        }
        _ => {
            if a != b {
                Some(format!("{}: {} vs {}", path, short(a), short(b)))
            } else {
                None
            }
        }
    }
}

pub fn diff_detailed(a: &Obs, b: &Obs) -> Option<String> {
    for ((qa, va), (_, vb)) in a.iter().zip(b.iter()) {
        if va != vb {
            return Some(format!("{} :: {}", qa, json_diff(va, vb, "").unwrap_or_default()));
        }
    }
    diff(a, b)
}
