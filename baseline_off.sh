#!/bin/bash
# Run the repository's pinned test suite with the verification guard OFF and report pass/fail counts.
# Usage: ./baseline_off.sh  (prints a summary; exit 0 iff every test of the stable baseline passed)
set -u
cd /repo
export CARGO_NET_OFFLINE=true
unset RUSTFLAGS
LOG=${1:-/dev/shm/baseline_off.log}
if [ -f /w/lib/nextest.toml ] && command -v cargo-nextest >/dev/null; then
  cargo nextest run --workspace --no-fail-fast --tool-config-file pb:/w/lib/nextest.toml --profile pb --test-threads 8 --offline > "$LOG" 2>&1
else
  cargo test --workspace --no-fail-fast --offline > "$LOG" 2>&1
fi
python3 - "$LOG" <<'PY'
import json,re,sys,os
import xml.etree.ElementTree as ET
b=json.load(open('/root/.vp/BASELINE.json'))
stable=set(b['stable_pass'])
passed=set(); failed=set()
j='/repo/target/nextest/pb/junit.xml'
if os.path.exists(j) and os.path.getmtime(j) >= os.path.getmtime(sys.argv[1]) - 3600:
    root=ET.parse(j).getroot()
    for ts in root.iter('testsuite'):
        for tc in ts.iter('testcase'):
            name=f"{ts.get('name')}::{tc.get('name')}"
            if tc.find('failure') is not None or tc.find('error') is not None:
                failed.add(name)
            else:
                passed.add(name)
else:
    log=open(sys.argv[1],errors='replace').read()
    for m in re.finditer(r'^test (\S+) \.\.\. ok', log, re.M):
        passed.add('brc20-prog::'+m.group(1))
missing=sorted(t for t in stable if t not in passed)
print(f"stable baseline: {len(stable)}  passed now: {len(stable)-len(missing)}  not passed: {len(missing)}  (other failures: {len(failed - set(b.get('always_fail',[])))})")
for t in missing[:30]: print("  NOT PASSED:", t)
sys.exit(1 if missing else 0)
PY
