#!/bin/bash
# Sensitivity sweep in a scratch copy (does not touch /repo or /verif while it runs):
#   ./sweep.sh <results.tsv> [patch ...]      (default: every patch in /verif/mutants and /verif/seeded/*/patch.diff)
# Each patch is applied to the scratch copy of /repo, the quick tier of the checks it is aimed at is run
# there, and the patch is undone. Columns: patch, check, CAUGHT|MISSED|INCONCLUSIVE|DOES-NOT-APPLY, signature.
set -u
OUT=${1:-/verif/mutants/RESULTS.tsv}; shift || true
S=/tmp/brc20-sweep
rm -rf $S; mkdir -p $S
git -C /repo worktree prune
rsync -a --exclude target /repo/ $S/repo/; (cd $S/repo && git checkout -q -- . 2>/dev/null)
mkdir -p $S/verif; for f in harness check KNOWN_FINDINGS.txt replays golden MANIFEST.json; do cp -r /verif/$f $S/verif/; done
cp -r /verif/target $S/verif/target 2>/dev/null   # a real copy: hardlinked cargo target dirs contaminate each other
rm -rf $S/verif/replays/found
pname() { case "$1" in */seeded/*) echo "seeded-$(basename $(dirname $1))-$(basename $1)";; *) basename "$1";; esac; }
targets() {  # which checks a patch is aimed at
  local n=$(basename "$1")
  case "$1" in */seeded/C[0-9][0-9]/*) echo "$1" | sed -E 's#.*/seeded/(C[0-9][0-9])/.*#\1#'; return;; esac
  case "$n" in
    m-c[0-9][0-9]-*) echo "C${n:3:2}";;
    revert-ad8ebb7*) echo "C01 C02 C03 C13";;
    revert-a452ef6*|revert-e86a5fc*) echo "C01 C03";;
    revert-9e877e1*) echo "C01";;
    revert-759911c*|revert-f4ff860*|revert-9434c4b*|revert-b2a1385*) echo "C09";;
    revert-932ab81*) echo "C05";;
    revert-cf8626f*) echo "C08";;
    revert-09f2b93*) echo "C11";;
    revert-b4b92c6*) echo "C06";;
    revert-3c5464c*|revert-ee12e2d*|revert-cfdb02d*) echo "C04";;
    *) echo "";;
  esac
}
PATCHES=(); for a in "$@"; do PATCHES+=("$(readlink -f "$a")"); done
if [ ${#PATCHES[@]} -eq 0 ]; then PATCHES=(/verif/mutants/*.patch); fi
: > "$OUT"
for p in "${PATCHES[@]}"; do
  ids=${SWEEP_IDS:-$(targets "$p")}
  [ -z "$ids" ] && continue
  cd $S/repo
  if ! git apply --check "$p" 2>/dev/null; then printf "%s\t-\tDOES-NOT-APPLY\t\n" "$(pname $p)" >> "$OUT"; continue; fi
  git apply "$p"
  for id in $ids; do
    out=$(cd $S/verif && VERIF_SEED=${VERIF_SEED:-0} ./check $id quick 2>&1); rc=$?
    case $rc in 1) v=CAUGHT;; 0) v=MISSED;; *) v="INCONCLUSIVE";; esac
    sig=$(echo "$out" | grep -B1 '^VIOLATION' | head -1 | sed 's/^  //' | cut -d' ' -f1)
    printf "%s\t%s\t%s\t%s\n" "$(pname $p)" "$id" "$v" "$sig" >> "$OUT"
  done
  git checkout -q -- . ; git clean -fdq src tests 2>/dev/null
done
rm -rf $S
echo "sweep done: $OUT"
