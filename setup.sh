#!/bin/bash
# Build the harness (offline) from files on disk only.
set -eu
ROOT="$(cd "$(dirname "$0")" && pwd)"
export CARGO_NET_OFFLINE=true
cd "$ROOT/harness"
cargo build --bin check 2>&1 | tail -3
