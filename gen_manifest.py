#!/usr/bin/env python3
"""Generate MANIFEST.json from the table below (kept in one place so that it stays valid)."""
import json, subprocess

HOOK_COMMITS = subprocess.run(
    ["git", "-C", "/repo", "log", "--format=%H %s", "--grep=^verif hooks"], capture_output=True, text=True
).stdout.strip().splitlines()

TRUST = "Trusted: the harness models and generators, revm/alloy/rocksdb/jsonrpsee; observation is the JSON-RPC surface driven in-process through jsonrpsee Methods (no sockets)."

def C(technique, text, design, note=TRUST, category="exploration"):
    return dict(technique=technique, text=text, design=design, note=note, category=category)

CLAIMED = {
    "C01": C("stateful property-based testing (proptest): generated call histories with reorgs; differential oracle against a fresh replay of the surviving chain + acceptance-rule model",
        "Exploration: random protocol-conformant call histories (all indexer op kinds, generated EVM programs, commits/clears/reopens) with several reorgs per history inside and outside the 10-block window. After every accepted reorg and at the end, every query over the universe of addresses/slots/hashes/inscription ids/heights must equal a fresh instance fed only the surviving chain, replayed responses must be equal too; acceptance/refusal is compared with the rule of the property (highest-ever-finalised model); refused reorgs must leave the observation unchanged. Absence of counter-examples within the explored histories only.", "3/C01"),
    "C02": C("property-based differential testing: twin instances fed one generated history (+ lossless restarts of one replica); pinned response digests of a frozen generated corpus",
        "Exploration: the same generated history is fed to two instances (independently seeded hash maps; one replica is committed+restarted at generated boundaries); every response and periodic full observations must be identical incl. array order. A frozen corpus of 48 generated histories is compared call by call with digests pinned for this PROTOCOL_VERSION/DB_VERSION (catches consensus-affecting constant changes).", "3/C02"),
    "C03": C("metamorphic property-based testing over commit schedules; differential against a fresh replay for lossy steps",
        "Exploration: (schedule) one generated history with no commit vs the same with commits (+clearCaches / stop-reopen right after) at generated boundaries: all responses and periodic observations identical. (lossy) histories with clearCaches (also mid-block) and restarts without commit: right after each lossy step and at the end the instance equals a fresh instance fed only the durable chain.", "3/C03"),
    "C04": C("fault injection enumerated over every persistent write site of generated histories (failpoints) with a differential oracle against fresh replays",
        "Fault enumeration: for each generated history every RocksDB put/delete/flush passed by every commit, reorg and finalise is used once as the crash point (sentinel panic in front of the write, instance dropped, directory reopened). Crash outside commit/reorg => equals a fresh replay of the durable chain; crash inside => reorg to the newest and one more durable height in the window is accepted and equals a fresh replay (also after extension). Exhaustive over the write sites of the generated histories; histories themselves are sampled.", "3/C04", category="fault_enumeration"),
    "C05": C("property-based fault injection into generated histories: out-of-protocol / malformed calls; before/after observation equality + twin without the rejected calls",
        "Exploration: 1-6 out-of-protocol or malformed indexer calls (18 kinds) injected at generated positions incl. mid-block: must-reject kinds must error, every rejected call must leave the full observation unchanged, and the rest of the history must answer exactly like a twin that never saw them.", "3/C05"),
    "C06": C("property-based testing with invariant oracle: chain coherence recomputed by independent code (own bloom, merkle, sums, RLP decode) over generated histories",
        "Exploration: generated histories; at boundaries and at the end all cross-reference invariants of the property are recomputed over all heights and all receipts ever returned. One known finding (tx hash reuse after a validation failure) is listed and excluded by signature.", "3/C06"),
    "C07": C("model-based property testing: independent BRC20 ledger model vs generated deposit/withdraw/transfer/adversarial interleavings",
        "Exploration: random interleavings of bridge calls, controller/token-level ERC20 calls by pkscripts, signers and a contract, adversarial owner-only calls, several ticker spellings and extreme amounts, across mining/commits/reorgs; balances, supply conservation and deposit/withdraw outcomes are compared with an independent ledger.", "3/C07"),
    "C08": C("model-based testing: reference pending-pool model; bounded-exhaustive arrival orders (small scope) + random sequences",
        "Exhaustive over a small scope (every arrival sequence of up to 3-4 signed transactions of one signer over nonces 0..3 x block-gap patterns {0,1,9,10,11}) and random sequences (3 signers, reorgs, clears, garbage, wrong chain): returned receipts, indexes, txpool_content(+From), account nonces and on-chain nonce order are compared with a reference pool model after every call.", "3/C08"),
    "C09": C("property-based robustness testing: generated request sequences with ill-typed mutations + liveness probes, generated/garbage EVM payloads and helper-contract inputs, direct calls of decoders and precompile functions",
        "Exploration: no panic (the shipped binary aborts), no wedged engine (read + write probes after requests), no loop beyond its bound (brc20_mine watched by work from a second thread) over any registered method x junk parameters in 4 engine states, random/generated code and call data, ABI-valid/invalid helper calls incl. Bitcoin helpers with closed override graphs, and direct calls of the pure functions with gas limits around each charge.", "3/C09"),
    "C10": C("metamorphic property-based testing: generated read requests inserted into a generated history; before/after observation equality, read-free twin, raw RocksDB dump comparison",
        "Exploration: eth_call / eth_callMany (chained, with overrides) / eth_estimateGas(Many) / brc20_balance with state-mutating generated code and the whole query surface (also mid-block) are inserted at generated positions; the observation before == after every read, all indexer responses, the final observation and the raw contents of every store after commit equal the read-free twin.", "3/C10"),
    "C11": C("schedule-controlled concurrency testing: enumerated (request A, request B, preemption point k) schedules owned through a lock-recorder hook; structural wait-for-cycle oracle",
        "Bounded-exhaustive over schedules with two threads and one preemption: every registered method A x 8 B requests x 2 engine states x every lock acquisition k of A (A paused before it, B runs until done or blocked, A resumed). A deadlock is a wait-for cycle in the recorded lock state under std RwLock's writer-preferring semantics, independent of timing. Three-thread or two-preemption deadlocks are out of reach.", "3/C11"),
    "C12": C("exhaustive matrix over a real HTTP server (public start()): method x request form x credentials x auth on/off, with behaviourally derived protected set and state-digest oracle",
        "Exhaustive over the stated matrix: every registered method as call / notification / batch element at every position of batches of 2-4 mixed with permitted calls, 7 credential kinds, auth enabled and disabled, at a boundary and mid-block: protected methods (declared list union behaviourally mutating) answer 401 and leave the public state digest (and durability) unchanged, permitted entries are answered, valid credentials admit everything.", "3/C12"),
    "C13": C("model-based testing of the storage components: bounded-exhaustive BFS over one history + random op sequences on real tables vs an in-memory versioned map",
        "Bounded-exhaustive: all op sequences up to length 8 (quick) / 11 (thorough) over {set a, set b, unset, advance 1/9/10/11, rollback 0..11} on one BlockHistoryCacheData, from 5 start states, states merged; plus random sequences on real BlockCachedDatabase tables (two key types) and a BlockDatabase on tmpfs with commit/discard/reopen/rollback/range scans against a durable+volatile model; persisted rows are read back for the 11-version bound.", "3/C13"),
    "C14": C("property-based round-trip / algebraic-law testing of the codecs (encode-decode, concatenation, key order, JSON stability)",
        "Exploration: pairs of generated values of every persisted/served type: lossless round trip with exact consumption, self-delimitation under concatenation, order preservation for numeric and composite keys, JSON text stability.", "3/C14"),
    "C15": C("property-based round-trip + boundedness testing of the payload decoder; twin differential for hex vs base64 submission",
        "Exploration: payloads of all shapes and sizes up to and beyond the limit through the published encoder and hand packers, bombs, arbitrary text; decode == original, never more than the limit, never a panic; generated histories submitted through the hex field vs the base64 field on twins must give identical responses and state.", "3/C15"),
    "C16": C("property-based testing with a closed estimate loop: eth_estimateGas -> transaction sized by the estimate -> success with the simulated output; allowance and failed-transaction invariants",
        "Exploration: probes into generated call-free contracts and creations with reported inscription lengths from {0,1,2,need-1,need,need+1,10*need,2^40,2^64-1}: tx.gas = min(len*12000,2^64-1), gasUsed <= allowance, failed transactions leave code/storage/other nonces/pool unchanged, lengths >= need succeed with the simulated output.", "3/C16"),
    "C17": C("differential property-based testing: eth_call vs the same call executed as the next transaction, on generated chain states",
        "Exploration: calls and creations (incl. CREATE/CREATE2 factories returning child addresses, NUMBER/BLOCKHASH readers) by pkscripts and signers are simulated with eth_call and then executed as brc20_call/deploy/transact with the simulation's gas allowance; success flag, return/revert data and installed code must agree.", "3/C17"),
    "C18": C("model-based property testing: reference log filter over collected receipts vs eth_getLogs on generated histories and generated filters",
        "Exploration: histories with 0-4-topic logs (committed and uncommitted, reverted emissions, reorgs) x generated filters (all range forms, address, positional topics with wildcard/value/alternatives); result compared as an ordered list with a reference filter; too-wide ranges must be refused.", "3/C18"),
    "C19": C("property-based testing with a probe contract: every context opcode and the txid helper recorded in storage and compared with what the harness supplied, on two network configurations",
        "Exploration: generated histories (inscription, signed, parked-then-drained calls, deploy constructors, explicit and server-generated hashes, 250+ mined blocks, commits, reorgs) on regtest (Prague everywhere) and signet (Cancun at low heights, in separately configured worker processes).", "3/C19"),
    "C20": C("exhaustive configuration matrix through the public start() in child processes; tampering with the recorded configuration rows",
        "Exhaustive over 196 (creating, reopening) configuration pairs (7 network spellings x traces on/off) on a populated committed directory plus 14 directory kinds (rows deleted/altered/lowered, configuration store removed, foreign directory, fresh directory): identical configuration starts and serves the recorded observation, every mismatch fails to start and leaves the logical contents of all stores unchanged.", "3/C20"),
}

NOT_YET = {}

def main():
    props = [json.loads(l) for l in open("/verif/properties.jsonl")]
    checks = []
    na = []
    for p in props:
        pid = p["id"]
        if pid in CLAIMED:
            c = CLAIMED[pid]
            checks.append({
                "property_id": pid,
                "quick_cmd": f"./check {pid} quick",
                "thorough_cmd": f"./check {pid} thorough",
                "evidence_file": f"evidence/{pid}.json",
                "replay_cmd_template": f"./check {pid} --replay {{path}}",
                "engine": "brc20-verif",
                "level_claimed": {"category": c.get("category", "exploration"), "text": c["text"], "design_ref": c["design"]},
                "level_note": c["note"],
                "technique": c["technique"],
            })
        else:
            na.append({"property_id": pid, "reason": NOT_YET.get(pid, "check under construction in this session: not claimed until its quick tier is green on the unchanged tree (no technique switch intended; see DESIGN.md section 3)")})
    m = {
        "version": 1,
        "setup_cmd": "./setup.sh",
        "notes": "All checks are run by ./check <id> <tier>, which rebuilds the harness crate (harness/, path-dependency on /repo with --cfg brc20_prog_verif) and then runs the proptest-driven binary; generated cases are spread over 16 worker processes. VERIF_SEED selects the PRNG seed. Exit 0 held / 1 VIOLATION line / 2 inconclusive (watchdog, build problem, generator health). Known findings and repaired defects: KNOWN_FINDINGS.txt; regression and known-finding reproductions: replays/; sensitivity material: mutants/, seeded/ (DESIGN.md section 7). ./run_all_quick.sh runs the whole quick tier, ./baseline_off.sh the pinned suite with the guard off.",
        "hooks": {
            "guard": "--cfg brc20_prog_verif (rustc cfg, set in harness/.cargo/config.toml)",
            "enable": "cd /verif/harness && cargo build  (rustflags = [\"--cfg\", \"brc20_prog_verif\"]; brc20-prog is a path dependency on /repo)",
            "baseline_off_cmd": "/verif/baseline_off.sh",
            "source_commits": [l.split()[0] for l in HOOK_COMMITS],
            "add_only": True,
        },
        "engines": [
            {"name": "brc20-verif", "path": "harness", "serves_properties": sorted(CLAIMED), "kind_free_text": "Rust binary: proptest TestRunner (fixed seed, 16 parallel runners), in-process instances driven through jsonrpsee Methods, reference models, shrinking + replay files"},
        ],
        "checks": checks,
        "not_applicable": na,
    }
    json.dump(m, open("/verif/MANIFEST.json", "w"), indent=1)
    print("claimed:", sorted(CLAIMED), "not claimed:", [n["property_id"] for n in na])

main()
