#!/usr/bin/env python3
"""Generate MANIFEST.json from the table below (kept in one place so that it stays valid)."""
import json, subprocess

HOOK_COMMITS = subprocess.run(
    ["git", "-C", "/repo", "log", "--format=%H %s", "--grep=^verif hooks"], capture_output=True, text=True
).stdout.strip().splitlines()

CLAIMED = {
    "C01": dict(
        technique="stateful property-based testing (proptest): generated call histories with reorgs, differential oracle against a fresh replay of the surviving chain + acceptance-rule model",
        text="Exploration: random protocol-conformant call histories (all indexer op kinds, generated EVM programs, commits/clears/reopens) with several reorgs per history inside and outside the 10-block window. After every accepted reorg and at the end of the history every query over the universe of addresses/slots/hashes/inscription ids/heights must equal a fresh instance fed only the surviving chain, replayed responses must be equal too; acceptance/refusal is compared with the rule of the property (highest-ever-finalised model); refused reorgs must leave the observation unchanged. Shows absence of counter-examples within the explored histories, not for all histories.",
        note="Trusted: the harness chain model (which blocks survive commit/clear/reopen/reorg), the generated-program assembler, revm/rocksdb/jsonrpsee. Observation is the JSON-RPC query surface, not raw RocksDB bytes.",
        design="3/C01",
    ),
}

NOT_YET = {}

def main():
    props = [json.loads(l) for l in open("/verif/properties.jsonl")]
    checks = []
    na = []
    for p in props:
        pid = p["id"]
        if pid in CLAIMED:
            c = CLAIMED[pid]
            checks.append({
                "property_id": pid,
                "quick_cmd": f"./check {pid} quick",
                "thorough_cmd": f"./check {pid} thorough",
                "evidence_file": f"evidence/{pid}.json",
                "replay_cmd_template": f"./check {pid} --replay {{path}}",
                "engine": "brc20-verif",
                "level_claimed": {"category": c.get("category", "exploration"), "text": c["text"], "design_ref": c["design"]},
                "level_note": c["note"],
                "technique": c["technique"],
            })
        else:
            na.append({"property_id": pid, "reason": NOT_YET.get(pid, "check under construction in this session: not claimed until its quick tier is green on the unchanged tree (no technique switch intended; see DESIGN.md section 3)")})
    m = {
        "version": 1,
        "setup_cmd": "./setup.sh",
        "notes": "All checks are run by ./check <id> <tier>, which rebuilds the harness crate (harness/, path-dependency on /repo with --cfg brc20_prog_verif) and then runs the proptest-driven binary. VERIF_SEED selects the PRNG seed. Known findings: KNOWN_FINDINGS.txt.",
        "hooks": {
            "guard": "--cfg brc20_prog_verif (rustc cfg, set in harness/.cargo/config.toml)",
            "enable": "cd /verif/harness && cargo build  (rustflags = [\"--cfg\", \"brc20_prog_verif\"]; brc20-prog is a path dependency on /repo)",
            "baseline_off_cmd": "/verif/baseline_off.sh",
            "source_commits": [l.split()[0] for l in HOOK_COMMITS],
            "add_only": True,
        },
        "engines": [
            {"name": "brc20-verif", "path": "harness", "serves_properties": sorted(CLAIMED), "kind_free_text": "Rust binary: proptest TestRunner (fixed seed, 16 parallel runners), in-process instances driven through jsonrpsee Methods, reference models, shrinking + replay files"},
        ],
        "checks": checks,
        "not_applicable": na,
    }
    json.dump(m, open("/verif/MANIFEST.json", "w"), indent=1)
    print("claimed:", sorted(CLAIMED), "not claimed:", [n["property_id"] for n in na])

main()
