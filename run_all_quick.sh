#!/bin/bash
# Run every quick check once on the current /repo tree (rewrites evidence/*.json); summary to stdout.
cd "$(dirname "$0")"
for id in C01 C02 C03 C04 C05 C06 C07 C08 C09 C10 C11 C12 C13 C14 C15 C16 C17 C18 C19 C20; do
  out=$(VERIF_SEED=${VERIF_SEED:-0} ./check $id quick 2>&1); rc=$?
  echo "$id rc=$rc $(echo "$out" | grep -E "^\[C|VIOLATION|INCONCLUSIVE" | head -2 | cut -c1-160)"
done
./validate.py
