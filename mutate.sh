#!/bin/bash
# ./mutate.sh <patch> <tier> <id>...   apply a patch to /repo, run the given checks, undo the patch.
# Prints one line per check: <patch> <id> CAUGHT|MISSED|INCONCLUSIVE (exit code) and the first VIOLATION detail.
set -u
PATCH=$(readlink -f "$1"); TIER=$2; shift 2
cd /repo || exit 2
if ! git diff --quiet; then echo "/repo has uncommitted changes"; exit 2; fi
if ! git apply --check "$PATCH" 2>/dev/null; then echo "$(basename $PATCH) DOES-NOT-APPLY"; exit 2; fi
git apply "$PATCH"
trap 'git -C /repo checkout -- . ; git -C /repo clean -fdq src' EXIT
cd /verif
for id in "$@"; do
  out=$(VERIF_SEED=${VERIF_SEED:-0} ./check $id $TIER 2>&1); rc=$?
  case $rc in 1) v=CAUGHT;; 0) v=MISSED;; *) v="INCONCLUSIVE($rc)";; esac
  echo "$(basename $PATCH) $id $v :: $(echo "$out" | grep -B1 '^VIOLATION' | head -1 | cut -c1-220)"
done
