#!/opt/veriftools/pyvenv/bin/python3
import json, jsonschema, glob, sys
ok = True
try:
    jsonschema.validate(json.load(open('/verif/MANIFEST.json')), json.load(open('/root/.vp/MANIFEST.schema.json')))
except Exception as e:
    ok = False; print("MANIFEST:", str(e)[:400])
es = json.load(open('/root/.vp/EVIDENCE.schema.json'))
for f in sorted(glob.glob('/verif/evidence/*.json')):
    try:
        jsonschema.validate(json.load(open(f)), es)
    except Exception as e:
        ok = False; print(f, str(e)[:400])
print("valid" if ok else "INVALID")
sys.exit(0 if ok else 1)
